#!/bin/sh
# Offline setup: optional atheris into .deps, numba warm-up for the current tree.
cd "$(dirname "$0")" || exit 2
mkdir -p .deps .cache .run
if ! PYTHONPATH=.deps /venv/bin/python -c "import atheris" 2>/dev/null; then
  /venv/bin/pip install -q --no-index --find-links /opt/veriftools/wheels --target .deps atheris >/dev/null 2>&1 || echo "atheris not installed (coverage-guided tier unavailable)"
fi
/venv/bin/python -c "import hypothesis" 2>/dev/null || /venv/bin/pip install -q --no-index --find-links /opt/veriftools/wheels hypothesis
./check WARM
