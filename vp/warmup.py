"""Import every module of the library once so numba compiles and caches."""
import time
t0 = time.time()
from . import env  # noqa
import numpy as np
import distance3d  # noqa
import distance3d.gjk, distance3d.mpr, distance3d.epa, distance3d.distance  # noqa
import distance3d.broad_phase, distance3d.self_collision, distance3d.aabb_tree  # noqa
import distance3d.containment_test, distance3d.hydroelastic_contact  # noqa
from .gen.colliders import build, KINDS
from .gen.atoms import quat_matrix

R = quat_matrix([0.9, 0.1, 0.3, 0.2]).tolist()
V = (np.array([[1, 1, 1], [1, -1, -1], [-1, 1, -1], [-1, -1, 1.0], [0.2, 0.1, 0]])).tolist()
specs = {
    "sphere": {"kind": "sphere", "R": R, "p": [0, 0, 0.0], "radius": 1.0},
    "ellipsoid": {"kind": "ellipsoid", "R": R, "p": [0, 0, 0.0], "radii": [1.0, 2, 3]},
    "capsule": {"kind": "capsule", "R": R, "p": [0, 0, 0.0], "radius": 1.0, "height": 1.0},
    "cylinder": {"kind": "cylinder", "R": R, "p": [0, 0, 0.0], "radius": 1.0, "length": 1.0},
    "cone": {"kind": "cone", "R": R, "p": [0, 0, 0.0], "radius": 1.0, "height": 1.0},
    "box": {"kind": "box", "R": R, "p": [0, 0, 0.0], "size": [1.0, 2, 3]},
    "disk": {"kind": "disk", "R": R, "p": [0, 0, 0.0], "radius": 1.0},
    "ellipse": {"kind": "ellipse", "R": R, "p": [0, 0, 0.0], "radii": [1.0, 2]},
    "mesh": {"kind": "mesh", "R": R, "p": [0, 0, 0.0], "vertices": V},
    "hull": {"kind": "hull", "vertices": V},
}
from distance3d import gjk, mpr, epa
objs = [build(specs[k]) for k in KINDS]
other = build(dict(specs["box"], p=[0.5, 0.2, 0.1]))
far = build(dict(specs["box"], p=[5.5, 0.2, 0.1]))
for o in objs:
    o.aabb()
    for b in (other, far):
        try:
            gjk.gjk_distance_jolt(o, b)
            gjk.gjk_intersection_jolt(o, b)
            gjk.gjk_distance_original(o, b)
            gjk.gjk_intersection_libccd(o, b)
            gjk.gjk_nesterov_accelerated_distance(o, b)
            mpr.mpr_intersection(o, b)
            mpr.mpr_penetration(o, b)
        except Exception as e:  # noqa
            print("warmup: %r" % (e,))
print("warm-up done in %.1fs" % (time.time() - t0))
