"""Worker process: executes cells of one property, one at a time, on request.

Protocol (stdin/stdout, line based): the runner writes a JSON cell descriptor
per line; the worker answers with one line `RESULT <json>` per cell.
Anything else on stdout is ignored by the runner.
"""
import hashlib
import importlib
import json
import os
import sys
import time
import traceback

from . import env  # noqa: F401  (shims first)
from . import common
from .common import (Stats, Violation, cell_seed, load_known, dump_case,
                     RUN_DIR, write_replay)


COLLECT = int(os.environ.get("VP_COLLECT", "0"))


def run_cell(mod, prop, cell, seed, tier, known):
    """Run one cell; returns a result dict."""
    import hypothesis
    from hypothesis import given, settings, HealthCheck, Phase

    stats = Stats()
    muted = set()
    violations = []
    harness_error = None
    journal_path = os.path.join(RUN_DIR, prop, "journal-%d.json" % os.getpid())
    os.makedirs(os.path.dirname(journal_path), exist_ok=True)
    jf = open(journal_path, "w")
    t0 = time.time()
    n_examples = int(cell["n"])
    strategy = mod.strategy(cell)
    attempt = 0
    budget = n_examples
    while attempt < 4 and budget > 0:
        attempt += 1
        state = {"last_fail": None, "count": 0}

        def body(case):
            if cell.get("journal", True):
                jf.seek(0)
                jf.write(json.dumps({"cell": cell, "case": case}, default=dump_case))
                jf.truncate()
                jf.flush()
            state["count"] += 1
            fails, info = mod.check_case(case, cell)
            unknown = []
            for f in fails:
                kid = mod.match_known(f, case, known) if known else None
                if kid is not None:
                    stats.known_hit(kid, case, f)
                elif f["bucket"] in muted:
                    stats.muted += 1
                else:
                    unknown.append(f)
            if COLLECT:
                for f in unknown:
                    key = "fail:" + "/".join(f["bucket"].split("/")[:COLLECT])
                    stats.extra[key] = stats.extra.get(key, 0) + 1
                    if key not in stats.known_samples:
                        stats.known_samples[key] = {"case": case, "failure": f}
                unknown = []
            stats.record(case, info, bool(fails))
            if unknown:
                state["last_fail"] = (case, unknown)
                raise Violation(unknown[0]["bucket"])

        phases = [Phase.explicit, Phase.generate, Phase.shrink]
        st = settings(
            max_examples=budget, database=None, deadline=None,
            derandomize=False, report_multiple_bugs=False, phases=phases,
            suppress_health_check=[HealthCheck.too_slow, HealthCheck.data_too_large,
                                   HealthCheck.filter_too_much,
                                   HealthCheck.large_base_example],
            print_blob=False)
        test = hypothesis.seed(cell_seed(seed, prop, cell["name"], attempt))(
            st(given(strategy)(body)))
        if tier == "quick":
            try:
                import hypothesis.internal.conjecture.engine as eng
                eng.MAX_SHRINKING_SECONDS = 20
            except Exception:
                pass
        try:
            test()
            break
        except Violation:
            case, unknown = state["last_fail"]
            f = unknown[0]
            path = write_replay(prop, cell, case, f)
            violations.append({"bucket": f["bucket"], "msg": f.get("msg", ""),
                               "replay": path})
            muted.add(f["bucket"])
            budget = max(0, n_examples - stats.evaluations)
            if budget < 5:
                break
        except hypothesis.errors.Flaky:
            # The verdict of one case changed between two evaluations (seen
            # when GJK hands EPA uninitialised simplex rows). Re-evaluate the
            # failing case: a failure that can be reproduced is reported as
            # usual, one that cannot is counted and the search goes on with
            # the next attempt seed - it is neither a violation (no replay
            # would show it) nor a harness error.
            reproduced = None
            if state["last_fail"] is not None:
                case = state["last_fail"][0]
                for _ in range(3):
                    fails, _info = mod.check_case(case, cell)
                    unk = [f for f in fails if f["bucket"] not in muted and
                           not (known and mod.match_known(f, case, known) is not None)]
                    if unk:
                        reproduced = unk[0]
                        break
            if reproduced is not None:
                path = write_replay(prop, cell, case, reproduced)
                violations.append({"bucket": reproduced["bucket"], "msg": reproduced.get("msg", ""),
                                   "replay": path})
                muted.add(reproduced["bucket"])
            else:
                stats.extra["flaky_unreproduced"] = stats.extra.get("flaky_unreproduced", 0) + 1
            budget = max(0, n_examples - stats.evaluations)
            if budget < 5:
                break
        except hypothesis.errors.Unsatisfiable as e:
            harness_error = "Unsatisfiable: %s" % e
            break
        except Exception:
            harness_error = traceback.format_exc()
            break
    jf.close()
    try:
        os.unlink(journal_path)
    except OSError:
        pass
    res = stats.result()
    res.update({"cell": cell["name"], "violations": violations,
                "harness_error": harness_error, "wall_s": time.time() - t0})
    return res


def run_replay(mod, prop, cell, known):
    """Re-evaluate saved cases without Hypothesis."""
    stats = Stats()
    violations = []
    for path in cell["replay"]:
        with open(path) as f:
            body = json.load(f)
        case = body["case"]
        ccell = body.get("cell") or {"name": "replay"}
        fails, info = mod.check_case(case, ccell)
        stats.record(case, info, bool(fails))
        seen = set()
        for f in fails:
            kid = mod.match_known(f, case, known) if known else None
            if kid is not None:
                stats.known_hit(kid, case, f)
            elif f["bucket"] not in seen:
                seen.add(f["bucket"])
                violations.append({"bucket": f["bucket"], "msg": f.get("msg", ""),
                                   "replay": path})
    res = stats.result()
    res.update({"cell": cell["name"], "violations": violations,
                "harness_error": None, "wall_s": 0.0})
    return res


def run_fuzz(prop, cell, seed):
    """Coverage-guided campaign in a NUMBA_DISABLE_JIT=1 subprocess (vp/fuzz.py)."""
    import subprocess
    from .runner import worker_env
    from .common import REPLAY_DIR
    t0 = time.time()
    d = os.path.join(RUN_DIR, prop, "fuzz-%s-%d" % (cell["fuzz"], os.getpid()))
    os.makedirs(d, exist_ok=True)
    out = os.path.join(d, "out")
    for ext in (".stats.json", ".replay.json"):
        if os.path.exists(out + ext):
            os.unlink(out + ext)
    sd = cell_seed(seed, prop, cell["name"]) % (2 ** 31 - 2) + 1      # never 0 (0 = random)
    env = worker_env("nojit")
    cmd = [sys.executable, "-m", "vp.fuzz", cell["fuzz"], out, "-runs=%d" % cell["runs"],
           "-seed=%d" % sd, "-max_len=512", "-len_control=0", "-artifact_prefix=" + d + "/",
           "-rss_limit_mb=8192"]
    r = subprocess.run(cmd, cwd=os.path.dirname(os.path.dirname(os.path.abspath(__file__))),
                       env=env, stdout=subprocess.PIPE, stderr=subprocess.STDOUT, text=True)
    stats = {"executed": 0, "nontrivial": 0, "samples": []}
    if os.path.exists(out + ".stats.json"):
        stats = json.load(open(out + ".stats.json"))
    violations = []
    harness_error = None
    if os.path.exists(out + ".replay.json"):
        body = json.load(open(out + ".replay.json"))
        os.makedirs(REPLAY_DIR, exist_ok=True)
        path = write_replay(prop, body["cell"], body["case"], body["failure"])
        violations.append({"bucket": body["failure"]["bucket"], "msg": body["failure"].get("msg", ""),
                           "replay": path})
    elif r.returncode != 0:
        harness_error = "fuzz target exited %d: %s" % (r.returncode, r.stdout[-1500:])
    cov = None
    for line in r.stdout.splitlines():
        if "DONE" in line and "cov:" in line:
            cov = line.strip()
    n = int(stats.get("executed", 0))
    if n == 0 and not violations and harness_error is None:
        n = cell["runs"]
    return {"cell": cell["name"], "evaluations": n,
            "nontrivial": ["fz-%s-%d" % (cell["fuzz"], i) for i in range(int(stats.get("nontrivial", 0)))],
            "labels": {"fuzz:" + cell["fuzz"]: n}, "samples": stats.get("samples", [])[:2],
            "undecided": 0, "failing_cases": len(violations), "muted": 0, "known": {},
            "known_samples": {}, "extra": {}, "violations": violations,
            "harness_error": harness_error, "wall_s": time.time() - t0, "libfuzzer": cov}


def preimport():
    """Import every module of the library and of the harness before the first
    cell. Hypothesis (>= 6.13x) seeds its float / integer generation with the
    numeric constants it finds in the source of all *local* modules loaded so
    far, so lazily imported modules made the cases of a cell depend on which
    cells the same worker had run before. With everything loaded up front a
    run is a function of the code and VERIF_SEED only."""
    import pkgutil
    import distance3d
    import vp.props
    import vp.ref
    import vp.gen
    for pkg in (distance3d, vp.props, vp.ref, vp.gen):
        for m in pkgutil.walk_packages(pkg.__path__, pkg.__name__ + "."):
            if ".test" in m.name or m.name.endswith(".fuzz"):
                continue
            try:
                importlib.import_module(m.name)
            except Exception:       # optional dependencies of the library
                pass


def main():
    prop, tier, seed = sys.argv[1], sys.argv[2], int(sys.argv[3])
    mod = importlib.import_module("vp.props.%s" % prop.lower())
    known = load_known(prop)
    if hasattr(mod, "worker_init"):
        mod.worker_init(tier)
    preimport()
    sys.stdout.write("READY\n")
    sys.stdout.flush()
    for line in sys.stdin:
        line = line.strip()
        if not line:
            continue
        cell = json.loads(line)
        common.CURRENT.update({"prop": prop, "cell": cell})
        try:
            if cell.get("fuzz"):
                res = run_fuzz(prop, cell, seed)
            elif cell.get("replay"):
                res = run_replay(mod, prop, cell, known)
            elif cell.get("direct"):
                res = mod.run_direct(cell, seed, tier, known)
                res.setdefault("cell", cell["name"])
            else:
                res = run_cell(mod, prop, cell, seed, tier, known)
        except Exception:
            res = {"cell": cell["name"], "harness_error": traceback.format_exc(),
                   "violations": [], "evaluations": 0}
        sys.stdout.write("RESULT " + json.dumps(res, default=dump_case) + "\n")
        sys.stdout.flush()


if __name__ == "__main__":
    main()
