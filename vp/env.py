"""Process environment for every check: shims, repo path, numba cache.

Import this module BEFORE distance3d. It never changes /repo.
"""
import hashlib
import os
import sys
from unittest.mock import MagicMock

VERIF = os.path.dirname(os.path.dirname(os.path.abspath(__file__)))
REPO = os.environ.get("VP_REPO", "/repo")


def tree_hash(repo=None):
    repo = repo or REPO
    h = hashlib.sha256()
    base = os.path.join(repo, "distance3d")
    for root, dirs, files in sorted(os.walk(base)):
        dirs.sort()
        if "__pycache__" in root or os.sep + "test" in root[len(base):]:
            continue
        for f in sorted(files):
            if f.endswith(".py"):
                p = os.path.join(root, f)
                h.update(os.path.relpath(p, base).encode())
                with open(p, "rb") as fh:
                    h.update(fh.read())
    return h.hexdigest()[:16]


def mode():
    if os.environ.get("NUMBA_DISABLE_JIT", "0") == "1":
        return "nojit"
    if os.environ.get("NUMBA_BOUNDSCHECK", "0") == "1":
        return "boundscheck"
    return "jit"


def setup():
    """Install shims, point sys.path at the repo, set the numba cache dir."""
    if getattr(setup, "_done", False):
        return
    setup._done = True
    import numpy
    if not hasattr(numpy, "row_stack"):
        numpy.row_stack = numpy.vstack
    if "open3d" not in sys.modules:
        sys.modules["open3d"] = MagicMock()
    if REPO in sys.path:
        sys.path.remove(REPO)
    sys.path.insert(0, REPO)
    if "NUMBA_CACHE_DIR" not in os.environ:
        d = os.path.join(VERIF, ".cache", "numba",
                         "%s-%s" % (mode(), tree_hash()))
        os.makedirs(d, exist_ok=True)
        os.environ["NUMBA_CACHE_DIR"] = d
    os.environ.setdefault("DISTANCE3D_VERIF", "1")


setup()
