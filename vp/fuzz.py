"""Coverage-guided campaigns (atheris / libFuzzer) with the semantic oracle
inside the target.

usage: python -m vp.fuzz <target> <out-prefix> [libFuzzer args]

Runs with NUMBA_DISABLE_JIT=1, so the library is plain Python and is
coverage-instrumented by atheris. Bytes are decoded into structured arguments
by a FuzzedDataProvider layer (Hypothesis' fuzz_one_input cannot be driven by
libFuzzer any more: since the choice-sequence encoding random byte strings
are rejected before the test body runs - measured: 0 executions in 20000
inputs). An unknown failure writes <out-prefix>.replay.json and raises, which
stops libFuzzer; <out-prefix>.stats.json is rewritten every 500 executions.
"""
import json
import os
import sys

from . import env  # noqa: F401
import atheris

with atheris.instrument_imports(include=["distance3d"]):
    import distance3d  # noqa: F401
    import distance3d.gjk, distance3d.distance, distance3d.aabb_tree  # noqa: F401,E401

import numpy as np  # noqa: E402
from .common import load_known, dump_case, Violation, fingerprint  # noqa: E402
from .gen.atoms import SIGNED_PERMS, quat_matrix, axis_angle  # noqa: E402


# ------------------------------------------------------------------ decoders

def _coord(fdp, lo=-3.0, hi=3.0):
    m = fdp.ConsumeIntInRange(0, 5)
    if m == 0:
        return float(fdp.ConsumeIntInRange(-2, 2))
    if m == 1:
        return 0.0
    if m == 2:
        return float(fdp.ConsumeIntInRange(-8, 8)) * 0.25
    return fdp.ConsumeFloatInRange(lo, hi)


def decode_simplex(fdp):
    k = fdp.ConsumeIntInRange(1, 4)
    scale = 10.0 ** fdp.ConsumeIntInRange(-3, 3) if fdp.ConsumeBool() else 1.0
    pts = []
    for i in range(k):
        mode = fdp.ConsumeIntInRange(0, 3)
        if mode == 0 or not pts:
            p = [_coord(fdp) for _ in range(3)]
        elif mode == 1:      # exact duplicate
            p = list(pts[fdp.ConsumeIntInRange(0, len(pts) - 1)])
        elif mode == 2:      # near duplicate
            q = pts[fdp.ConsumeIntInRange(0, len(pts) - 1)]
            e = 10.0 ** (-fdp.ConsumeIntInRange(6, 16))
            p = [q[c] + e * fdp.ConsumeFloatInRange(-1.0, 1.0) for c in range(3)]
        else:                # on the line / plane through earlier points
            a = pts[fdp.ConsumeIntInRange(0, len(pts) - 1)]
            b = pts[fdp.ConsumeIntInRange(0, len(pts) - 1)]
            t = fdp.ConsumeFloatInRange(-2.0, 2.0)
            e = 0.0 if fdp.ConsumeBool() else 10.0 ** (-fdp.ConsumeIntInRange(6, 16))
            p = [a[c] + t * (b[c] - a[c]) + e * fdp.ConsumeFloatInRange(-1.0, 1.0) for c in range(3)]
        pts.append(p)
    pts = [[0.0 if abs(x * scale) < 1e-30 else x * scale for x in p] for p in pts]
    return {"points": pts}


def _rotation(fdp):
    m = fdp.ConsumeIntInRange(0, 3)
    if m <= 1:
        return SIGNED_PERMS[fdp.ConsumeIntInRange(0, 23)]
    if m == 2:
        return SIGNED_PERMS[fdp.ConsumeIntInRange(0, 23)].dot(
            axis_angle(fdp.ConsumeIntInRange(0, 2), fdp.ConsumeFloatInRange(0.05, 1.5)))
    return quat_matrix([fdp.ConsumeFloatInRange(-1, 1) for _ in range(4)])


def decode_line_box(fdp):
    fn = "line_to_box" if fdp.ConsumeBool() else "line_segment_to_box"
    R = _rotation(fdp)
    size = [[0.5, 1.0, 2.0, 4.0][fdp.ConsumeIntInRange(0, 3)] if fdp.ConsumeBool()
            else fdp.ConsumeFloatInRange(0.2, 5.0) for _ in range(3)]
    box = {"kind": "box", "R": np.asarray(R).tolist(), "p": [_coord(fdp, -4, 4) for _ in range(3)], "size": size}
    # line in the box frame: components exactly 0 / +-1 / float
    d = []
    for _ in range(3):
        m = fdp.ConsumeIntInRange(0, 3)
        d.append(0.0 if m == 0 else (1.0 if m == 1 else fdp.ConsumeFloatInRange(-1.0, 1.0)))
    if not any(abs(x) > 1e-3 for x in d):
        d = [0.0, 0.0, 1.0]
    d = np.asarray(R).dot(np.array(d) / np.linalg.norm(d))
    p = np.asarray(R).dot(np.array([_coord(fdp, -4, 4) for _ in range(3)])) + np.array(box["p"])
    if fn == "line_to_box":
        p1 = {"kind": "line", "p": p.tolist(), "d": d.tolist()}
    else:
        l = fdp.ConsumeFloatInRange(0.2, 6.0)
        p1 = {"kind": "segment", "a": (p - 0.5 * l * d).tolist(), "b": (p + 0.5 * l * d).tolist()}
    return {"fn": fn, "p1": p1, "p2": box, "labels": ["fuzz"]}


def decode_tree(fdp):
    ops = []
    for _ in range(fdp.ConsumeIntInRange(1, 12)):
        kind = fdp.ConsumeIntInRange(0, 4)

        def box():
            lo = [float(fdp.ConsumeIntInRange(-3, 3)) for _ in range(3)]
            ex = [float(fdp.ConsumeIntInRange(0, 3)) for _ in range(3)]
            return [[lo[i], lo[i] + ex[i]] for i in range(3)]
        if kind <= 1:
            ops.append({"op": "batch", "boxes": [box() for _ in range(fdp.ConsumeIntInRange(0, 6))],
                        "mode": ["none", "sort", "shuffle"][fdp.ConsumeIntInRange(0, 2)],
                        "data": fdp.ConsumeBool(), "rng": fdp.ConsumeIntInRange(0, 255)})
        elif kind == 2:
            ops.append({"op": "single", "box": box(), "data": fdp.ConsumeBool()})
        elif kind == 3:
            ops.append({"op": "query", "box": box()})
        else:
            ops.append({"op": "query_tree", "other": [
                {"op": "batch", "boxes": [box() for _ in range(fdp.ConsumeIntInRange(0, 4))],
                 "mode": ["none", "sort", "shuffle"][fdp.ConsumeIntInRange(0, 2)],
                 "data": fdp.ConsumeBool(), "rng": 0} for _ in range(fdp.ConsumeIntInRange(0, 2))]})
    return {"ops": ops}


def decode_nesterov(fdp):
    """Two convex shapes for the Nesterov GJK variants: small hulls on a
    quarter lattice (generic module) or box / cylinder / capsule / sphere /
    ellipsoid pairs (primitives module), separated or overlapping."""
    def hull():
        k = fdp.ConsumeIntInRange(4, 8)
        sc = [0.25, 1.0, 4.0][fdp.ConsumeIntInRange(0, 2)]
        V = [[sc * fdp.ConsumeIntInRange(-4, 4) * 0.25 + (fdp.ConsumeFloatInRange(-0.1, 0.1) if fdp.ConsumeBool() else 0.0)
              for _ in range(3)] for _ in range(k)]
        from .gen.colliders import hull_vertices_only, _full_rank
        V = np.array(V)
        if not _full_rank(V):
            V = np.array([[1, 1, 1], [1, -1, -1], [-1, 1, -1], [-1, -1, 1.0]]) * sc
        return {"kind": "hull", "vertices": hull_vertices_only(V.tolist()), "vcls": "fuzz"}

    def prim(kind):
        sz = lambda: [0.25, 0.5, 1.0, 2.0][fdp.ConsumeIntInRange(0, 3)] if fdp.ConsumeBool() else fdp.ConsumeFloatInRange(0.1, 4.0)  # noqa: E731
        sp = {"kind": kind, "R": np.asarray(_rotation(fdp)).tolist(), "p": [0.0, 0.0, 0.0]}
        if kind == "box":
            sp["size"] = [sz(), sz(), sz()]
        elif kind == "cylinder":
            sp["radius"], sp["length"] = sz(), sz()
        elif kind == "capsule":
            sp["radius"], sp["height"] = sz(), sz()
        elif kind == "sphere":
            sp["R"] = np.eye(3).tolist()
            sp["radius"] = sz()
        else:
            sp["radii"] = [sz(), sz(), sz()]
        return sp
    mode = fdp.ConsumeIntInRange(0, 3)
    kinds = ["box", "cylinder", "capsule", "sphere", "ellipsoid"]
    if mode <= 1:
        A, B = hull(), hull()
    else:
        A, B = prim(kinds[fdp.ConsumeIntInRange(0, 4)]), prim(kinds[fdp.ConsumeIntInRange(0, 4)])
    off = [_coord(fdp, -6, 6) for _ in range(3)]
    from .gen.colliders import translate
    B = translate(B, off)
    return {"A": A, "B": B, "family": "free", "wit": {}, "labels": ["free", "fuzz"]}


def _check_c09(case):
    from .props import c09
    os.environ["VP_C09_ONLY"] = "nesterov,nesterov-raw,nesterov-acc,nesterov-prim,nesterov-prim-raw,nesterov-prim-acc"
    return "C09", c09, c09.check_case(case, {"name": "fuzz"})


def _check_c18(case):
    from .props import c18
    return "C18", c18, c18.check_points(case["points"])


def _check_prim(which):
    def chk(case):
        from .props import prim, c10, c11
        f10, f11, info = prim.evaluate(case)
        return ("C10", c10, (f10, info)) if which == 0 else ("C11", c11, (f11, info))
    return chk


def _check_c05(case):
    from .props import c05
    return "C05", c05, c05.check_case(case, {"variant": "lattice"})


TARGETS = {
    "simplex": (decode_simplex, _check_c18),
    "line-box-c10": (decode_line_box, _check_prim(0)),
    "line-box-c11": (decode_line_box, _check_prim(1)),
    "aabbtree": (decode_tree, _check_c05),
    "nesterov": (decode_nesterov, _check_c09),
}


def main():
    target, out = sys.argv[1], sys.argv[2]
    decode, check = TARGETS[target]
    st = {"executed": 0, "nontrivial": 0, "distinct": 0, "samples": []}
    seen = set()
    known_cache = {}

    def one(data):
        fdp = atheris.FuzzedDataProvider(data)
        case = decode(fdp)
        prop, mod, (fails, info) = check(case)
        st["executed"] += 1
        if info.get("nontrivial"):
            fp = fingerprint(case)
            if fp not in seen:
                seen.add(fp)
                st["nontrivial"] += 1
                if len(st["samples"]) < 3:
                    st["samples"].append(case)
        if prop not in known_cache:
            known_cache[prop] = load_known(prop)
        known = known_cache[prop]
        unknown = [f for f in fails if not (known and mod.match_known(f, case, known))]
        if st["executed"] % 500 == 0:
            with open(out + ".stats.json", "w") as fh:
                json.dump(st, fh, default=dump_case)
        if unknown:
            with open(out + ".stats.json", "w") as fh:
                json.dump(st, fh, default=dump_case)
            with open(out + ".replay.json", "w") as fh:
                json.dump({"property": prop, "cell": {"name": "fuzz-" + target}, "case": case,
                           "failure": unknown[0]}, fh, default=dump_case)
            raise Violation(unknown[0]["bucket"])

    atheris.Setup([sys.argv[0]] + sys.argv[3:], one)
    atheris.Fuzz()


if __name__ == "__main__":
    main()
