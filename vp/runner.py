"""Runner: ./check <ID> --tier quick|thorough [--replay FILE]

Spawns worker subprocesses (crash isolation), hands them cells, merges the
results, prints VIOLATION / KNOWN-FINDING lines, writes the evidence file.
Exit 0 held, 1 violation, 2 harness error / inconclusive.
"""
import argparse
import glob
import importlib
import json
import os
import queue
import subprocess
import sys
import threading
import time

from . import env
from .common import (RUN_DIR, REPLAY_DIR, KNOWN_FILE, load_known, dump_case)

VERIF = env.VERIF
PY = sys.executable
NWORKERS = int(os.environ.get("VP_WORKERS", "16"))


def worker_env(mode="jit"):
    e = dict(os.environ)
    e["PYTHONHASHSEED"] = "0"
    e["PYTHONPATH"] = VERIF + os.pathsep + os.path.join(VERIF, ".deps")
    e.pop("NUMBA_CACHE_DIR", None)
    e.pop("NUMBA_DISABLE_JIT", None)
    e.pop("NUMBA_BOUNDSCHECK", None)
    if mode == "nojit":
        e["NUMBA_DISABLE_JIT"] = "1"
    elif mode == "boundscheck":
        e["NUMBA_BOUNDSCHECK"] = "1"
    e["PYTHONWARNINGS"] = "ignore"
    e["OMP_NUM_THREADS"] = "1"
    e["OPENBLAS_NUM_THREADS"] = "1"
    e["MKL_NUM_THREADS"] = "1"
    e["NUMBA_NUM_THREADS"] = "1"
    return e


def warm(mode="jit", force=False):
    """Compile the library once for the current tree (marker in cache dir)."""
    d = os.path.join(VERIF, ".cache", "numba", "%s-%s" % (mode, env.tree_hash()))
    marker = os.path.join(d, ".warm")
    if os.path.exists(marker) and not force:
        return 0.0
    t0 = time.time()
    os.makedirs(d, exist_ok=True)
    r = subprocess.run([PY, "-m", "vp.warmup"], cwd=VERIF, env=worker_env(mode),
                       stdout=subprocess.PIPE, stderr=subprocess.STDOUT, text=True)
    if r.returncode != 0:
        sys.stderr.write(r.stdout[-4000:])
        raise SystemExit(2)
    with open(marker, "w") as f:
        f.write("ok\n")
    prune_caches()
    return time.time() - t0


def prune_caches(keep=6):
    base = os.path.join(VERIF, ".cache", "numba")
    ds = sorted(glob.glob(os.path.join(base, "*")), key=os.path.getmtime)
    import shutil
    for d in ds[:-keep]:
        shutil.rmtree(d, ignore_errors=True)


class WorkerHandle:
    def __init__(self, prop, tier, seed, mode):
        self.args = [PY, "-m", "vp.worker", prop, tier, str(seed)]
        self.mode = mode
        self.proc = None
        self.log = None

    def start(self):
        os.makedirs(os.path.join(RUN_DIR, "logs"), exist_ok=True)
        self.logpath = os.path.join(RUN_DIR, "logs", "w-%d-%d.err" % (os.getpid(), id(self)))
        self.log = open(self.logpath, "w")
        self.proc = subprocess.Popen(
            self.args, cwd=VERIF, env=worker_env(self.mode), stdin=subprocess.PIPE,
            stdout=subprocess.PIPE, stderr=self.log, text=True, bufsize=1)
        while True:
            line = self.proc.stdout.readline()
            if not line:
                raise RuntimeError("worker failed to start: " + self.tail())
            if line.strip() == "READY":
                return

    def tail(self):
        try:
            self.log.flush()
            with open(self.logpath) as f:
                return f.read()[-3000:]
        except Exception:
            return ""

    def run(self, cell, timeout):
        if self.proc is None or self.proc.poll() is not None:
            self.start()
        self.proc.stdin.write(json.dumps(cell) + "\n")
        self.proc.stdin.flush()
        result = {}

        def reader():
            while True:
                line = self.proc.stdout.readline()
                if not line:
                    result["eof"] = True
                    return
                if line.startswith("RESULT "):
                    result["res"] = json.loads(line[7:])
                    return

        th = threading.Thread(target=reader, daemon=True)
        th.start()
        th.join(timeout)
        if th.is_alive():
            self.proc.kill()
            th.join(5)
            return {"cell": cell["name"], "timeout": True, "violations": [],
                    "evaluations": 0}
        if "res" in result:
            return result["res"]
        rc = self.proc.wait()
        return {"cell": cell["name"], "crash": rc, "stderr": self.tail(),
                "violations": [], "evaluations": 0}

    def stop(self):
        if self.proc and self.proc.poll() is None:
            try:
                self.proc.stdin.close()
                self.proc.wait(5)
            except Exception:
                self.proc.kill()
        if self.log:
            self.log.close()
            try:
                os.unlink(self.logpath)
            except OSError:
                pass


def run_cells(prop, tier, seed, cells, cell_timeout):
    """Execute all cells on NWORKERS workers (per mode). Returns results."""
    q = queue.Queue()
    # heavy cells first for balance
    for c in sorted(cells, key=lambda c: -c.get("cost", c.get("n", 1))):
        q.put(c)
    results = []
    lock = threading.Lock()

    def loop():
        handles = {}
        while True:
            try:
                cell = q.get_nowait()
            except queue.Empty:
                break
            mode = cell.get("mode", "jit")
            h = handles.get(mode)
            if h is None:
                h = handles[mode] = WorkerHandle(prop, tier, seed, mode)
            try:
                res = h.run(cell, cell.get("timeout", cell_timeout))
            except Exception as e:   # noqa
                res = {"cell": cell["name"], "harness_error": "runner: %r" % (e,),
                       "violations": [], "evaluations": 0}
            if res.get("crash") is not None or res.get("timeout"):
                # keep the journal of the dying worker as the culprit input
                jp = os.path.join(RUN_DIR, prop, "journal-%d.json" % h.proc.pid)
                if os.path.exists(jp):
                    res["journal"] = jp
            with lock:
                results.append(res)
        for h in handles.values():
            h.stop()

    n = min(NWORKERS, max(1, len(cells)))
    ths = [threading.Thread(target=loop) for _ in range(n)]
    for t in ths:
        t.start()
    for t in ths:
        t.join()
    return results


def merge(prop, tier, seed, mod, cells, results, wall, extra_assumptions=()):
    ev = 0
    nontrivial = set()
    labels = {}
    samples = []
    undecided = 0
    known = {}
    known_samples = {}
    violations = []
    errors = []
    per_cell = {}
    extra = {}
    muted = 0
    for r in results:
        ev += r.get("evaluations", 0)
        nontrivial.update(r.get("nontrivial", ()))
        for k, v in r.get("labels", {}).items():
            labels[k] = labels.get(k, 0) + v
        undecided += r.get("undecided", 0)
        muted += r.get("muted", 0)
        for k, v in r.get("known", {}).items():
            known[k] = known.get(k, 0) + v
        for k, v in r.get("known_samples", {}).items():
            known_samples.setdefault(k, v)
        for k, v in r.get("extra", {}).items():
            if k.startswith("max_"):
                extra[k] = max(extra.get(k, v), v)
            else:
                extra[k] = extra.get(k, 0) + v
        for s in r.get("samples", [])[:2]:
            if len(samples) < 40:
                samples.append({"cell": r["cell"], "case": s})
        for v in r.get("violations", []):
            violations.append(dict(v, cell=r["cell"]))
        if r.get("harness_error"):
            errors.append({"cell": r["cell"], "error": r["harness_error"]})
        if r.get("timeout"):
            errors.append({"cell": r["cell"], "error": "worker timeout (inconclusive)",
                           "journal": r.get("journal")})
        if r.get("crash") is not None:
            if hasattr(mod, "on_crash"):
                v = mod.on_crash(r)
                if v:
                    violations.append(dict(v, cell=r["cell"]))
                else:
                    errors.append({"cell": r["cell"], "error": "worker crash rc=%s %s" % (
                        r["crash"], r.get("stderr", "")[-1500:])})
            else:
                errors.append({"cell": r["cell"], "error": "worker crash rc=%s %s" % (
                    r["crash"], r.get("stderr", "")[-1500:])})
        per_cell[r["cell"]] = {"evaluations": r.get("evaluations", 0),
                               "nontrivial": len(r.get("nontrivial", ())),
                               "wall_s": round(r.get("wall_s", 0.0), 2)}
    rule = getattr(mod, "RULE", "")
    coverage = {
        "evaluations": ev, "distinct_nontrivial": len(nontrivial), "rule": rule,
        "samples": samples, "labels": dict(sorted(labels.items())),
        "undecided": undecided, "cells": len(cells),
        "per_cell": per_cell if len(per_cell) <= 400 else
        {"_note": "%d cells, omitted" % len(per_cell)},
        "known_findings_hit": known, "known_finding_samples": known_samples,
        "muted_repeat_failures": muted, "counters": extra,
        "violations": violations, "harness_errors": errors[:20],
    }
    if hasattr(mod, "coverage_extra"):
        coverage.update(mod.coverage_extra(tier, results))
    evidence = {
        "property_id": prop, "tier": tier, "seed": seed,
        "level": getattr(mod, "LEVEL", "exploration"), "coverage": coverage,
        "assumptions": list(getattr(mod, "ASSUMPTIONS", [])) + [
            "harness shims: numpy.row_stack = numpy.vstack; sys.modules['open3d'] = MagicMock()",
            "reference oracles in /verif/vp/ref (never import distance3d)",
            "repo tree hash %s at %s" % (env.tree_hash(), env.REPO),
        ] + list(extra_assumptions),
        "wall_s": round(wall, 2), "violations": len(violations),
    }
    return evidence, violations, known, errors


def write_evidence(prop, evidence):
    d = os.path.join(VERIF, "evidence")
    os.makedirs(d, exist_ok=True)
    p = os.path.join(d, "%s.json" % prop)
    with open(p, "w") as f:
        json.dump(evidence, f, indent=1, default=dump_case)
    return p


def main(argv=None):
    ap = argparse.ArgumentParser()
    ap.add_argument("prop")
    ap.add_argument("--tier", default=os.environ.get("VERIF_TIER", "quick"),
                    choices=["quick", "thorough"])
    ap.add_argument("--replay")
    ap.add_argument("--cells", help="comma separated substrings to select cells")
    ap.add_argument("--scale", type=float, default=1.0, help="scale example counts")
    ap.add_argument("--no-evidence", action="store_true")
    a = ap.parse_args(argv)
    prop = a.prop.upper()
    seed = int(os.environ.get("VERIF_SEED", "1") or "1")
    t0 = time.time()
    if prop == "WARM":
        for m in ("jit",):
            print("warm %s: %.1fs" % (m, warm(m)))
        return 0
    mod = importlib.import_module("vp.props.%s" % prop.lower())
    modes = set()
    if a.replay:
        try:
            with open(a.replay) as fh:
                rmode = (json.load(fh).get("cell") or {}).get("mode", "jit")
        except Exception:
            rmode = "jit"
        cells = [{"name": "replay", "direct": True, "replay": [os.path.abspath(a.replay)], "mode": rmode}]
    else:
        cells = mod.cells(a.tier)
        corpus = sorted(glob.glob(os.path.join(VERIF, "corpus", prop, "*.json")))
        if corpus:
            # saved cases are replayed in the execution mode of the cell that
            # found them (a hang is only catchable in interpreted mode)
            by_mode = {}
            for path in corpus:
                try:
                    with open(path) as fh:
                        m = (json.load(fh).get("cell") or {}).get("mode", "jit")
                except Exception:
                    m = "jit"
                by_mode.setdefault(m, []).append(path)
            for m, paths in sorted(by_mode.items()):
                cells.append({"name": "corpus" if m == "jit" else "corpus-" + m, "direct": True,
                              "replay": paths, "cost": 1e9, "mode": m})
        if a.cells:
            keys = a.cells.split(",")
            cells = [c for c in cells if any(k in c["name"] for k in keys)]
        for c in cells:
            if "n" in c:
                c["n"] = max(1, int(c["n"] * a.scale))
            if "runs" in c:
                c["runs"] = max(100, int(c["runs"] * a.scale))
    for c in cells:
        modes.add(c.get("mode", "jit"))
    if "jit" in modes:
        warm("jit")
    cell_timeout = 1800 if a.tier == "quick" else 4 * 3600
    results = run_cells(prop, a.tier, seed, cells, cell_timeout)
    if os.environ.get("VP_DUMP_CELLS"):      # development: determinism checks
        import hashlib
        with open(os.environ["VP_DUMP_CELLS"], "w") as fh:
            for r in sorted(results, key=lambda r: str(r.get("cell"))):
                fh.write("%s %s %s %s\n" % (r.get("cell"), r.get("evaluations"), len(r.get("nontrivial", [])),
                                            hashlib.sha1(",".join(sorted(r.get("nontrivial", []))).encode()).hexdigest()[:10]))
    evidence, violations, known, errors = merge(
        prop, a.tier, seed, mod, cells, results, time.time() - t0)
    if not a.replay and not a.no_evidence and not a.cells:
        write_evidence(prop, evidence)
    # report
    kf = {e["id"]: e for e in load_known(prop)}
    for kid, n in sorted(known.items()):
        print("KNOWN-FINDING: property=%s %s [%s, %d cases]" % (
            prop, kf.get(kid, {}).get("what", kid), kid, n))
    seen = set()
    for v in violations:
        if v["bucket"] in seen:
            continue
        seen.add(v["bucket"])
        print("VIOLATION property=%s replay=%s" % (prop, v["replay"]))
        print("  bucket=%s cell=%s %s" % (v["bucket"], v.get("cell"), v.get("msg", "")[:300]))
    for e in errors[:10]:
        print("HARNESS-ERROR cell=%s: %s" % (e["cell"], e["error"][-1500:]), file=sys.stderr)
    c = evidence["coverage"]
    if os.environ.get("VP_COLLECT"):
        for k, v in sorted(c["counters"].items()):
            if k.startswith("fail:"):
                print("  %6d  %s" % (v, k))
        os.makedirs(os.path.join(RUN_DIR, "collect"), exist_ok=True)
        for k, v in c["known_finding_samples"].items():
            if k.startswith("fail:"):
                fn = os.path.join(RUN_DIR, "collect", "".join(ch if ch.isalnum() else "_" for ch in k) + ".json")
                with open(fn, "w") as fh:
                    json.dump({"property": prop, "cell": {}, "case": v["case"], "failure": v["failure"]}, fh, default=dump_case)
    print("%s %s seed=%d: %d evaluations, %d distinct non-trivial, %d undecided, "
          "%d violations, %.1fs" % (prop, a.tier, seed, c["evaluations"],
                                    c["distinct_nontrivial"], c["undecided"],
                                    len(seen), time.time() - t0))
    if violations:
        return 1
    if errors:
        return 2
    return 0


if __name__ == "__main__":
    sys.exit(main())
