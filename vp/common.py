"""Shared pieces of the framework: stats, seeds, replay files, findings."""
import hashlib
import json
import os
import traceback

import numpy as np

from .env import VERIF, REPO

RUN_DIR = os.path.join(VERIF, ".run")
REPLAY_DIR = os.path.join(VERIF, "replays")
KNOWN_FILE = os.path.join(VERIF, "known_findings.json")
MAX_SAMPLES_PER_CELL = 3
MAX_FP_PER_CELL = 200000
CURRENT = {}      # set by the worker: property and cell being run


class Violation(Exception):
    pass


class HarnessError(Exception):
    pass


def dump_case(o):
    if isinstance(o, np.ndarray):
        return o.tolist()
    if isinstance(o, (np.floating,)):
        return float(o)
    if isinstance(o, (np.integer,)):
        return int(o)
    if isinstance(o, (np.bool_,)):
        return bool(o)
    if isinstance(o, (set, frozenset)):
        return sorted(o)
    return repr(o)


def cell_seed(seed, prop, cell, attempt=0):
    h = hashlib.sha256(("%d|%s|%s|%d" % (seed, prop, cell, attempt)).encode())
    return int.from_bytes(h.digest()[:8], "big")


def fingerprint(case):
    s = json.dumps(case, sort_keys=True, default=dump_case)
    return hashlib.sha1(s.encode()).hexdigest()[:12]


class Stats:
    def __init__(self):
        self.evaluations = 0
        self.nontrivial = set()
        self.labels = {}
        self.samples = []
        self.nt_samples = 0
        self.undecided = 0
        self.failing = 0
        self.muted = 0
        self.known = {}
        self.known_samples = {}
        self.extra = {}

    def record(self, case, info, failed):
        self.evaluations += 1
        if failed:
            self.failing += 1
        for l in info.get("labels", ()):
            self.labels[l] = self.labels.get(l, 0) + 1
        self.undecided += int(info.get("undecided", 0))
        for k, v in info.get("counters", {}).items():
            self.extra[k] = self.extra.get(k, 0) + v
        for k, v in info.get("maxima", {}).items():
            self.extra[k] = max(self.extra.get(k, v), v)
        if info.get("nontrivial"):
            if len(self.nontrivial) < MAX_FP_PER_CELL:
                self.nontrivial.add(info.get("fp") or fingerprint(case))
            if self.nt_samples < MAX_SAMPLES_PER_CELL:
                self.nt_samples += 1
                self.samples.append(compact(case))
        elif len(self.samples) < 1:
            self.samples.append(compact(case))

    def known_hit(self, kid, case, f):
        self.known[kid] = self.known.get(kid, 0) + 1
        if kid not in self.known_samples:
            self.known_samples[kid] = {"case": compact(case), "failure": f}
        if os.environ.get("VP_HARVEST") and CURRENT.get("prop") and not CURRENT["cell"].get("replay"):
            # maintenance only (tools/harvest_known.sh): keep one witness per
            # open finding in the corpus, so that every run re-evaluates it
            d = os.path.join(VERIF, "corpus", CURRENT["prop"])
            path = os.path.join(d, "known-%s.json" % kid)
            if not os.path.exists(path):
                os.makedirs(d, exist_ok=True)
                cell = {k: v for k, v in CURRENT["cell"].items() if k != "cost"}
                with open(path + ".%d" % os.getpid(), "w") as fh:
                    json.dump({"property": CURRENT["prop"], "cell": cell, "case": case,
                               "failure": f, "known": kid}, fh, default=dump_case, indent=1)
                os.replace(path + ".%d" % os.getpid(), path)

    def result(self):
        return {"evaluations": self.evaluations,
                "nontrivial": sorted(self.nontrivial),
                "labels": self.labels, "samples": self.samples,
                "undecided": self.undecided, "failing_cases": self.failing,
                "muted": self.muted, "known": self.known,
                "known_samples": self.known_samples, "extra": self.extra}


def compact(case, maxlen=4000):
    """Case as JSON-able object, truncated if huge (samples only)."""
    s = json.dumps(case, default=dump_case)
    if len(s) <= maxlen:
        return json.loads(s)
    return {"truncated_json": s[:maxlen]}


def load_known(prop=None):
    if not os.path.exists(KNOWN_FILE):
        return []
    with open(KNOWN_FILE) as f:
        data = json.load(f)
    out = [e for e in data.get("findings", []) if e.get("status") == "open"]
    skip = os.environ.get("VP_IGNORE_KNOWN", "").split(",")     # development: is a finding still there?
    out = [e for e in out if e["id"] not in skip]
    if prop:
        out = [e for e in out if e["property"] == prop]
    return out


def write_replay(prop, cell, case, failure):
    os.makedirs(REPLAY_DIR, exist_ok=True)
    body = {"property": prop, "cell": cell, "case": case, "failure": failure}
    s = json.dumps(body, default=dump_case, indent=1)
    h = hashlib.sha1(s.encode()).hexdigest()[:10]
    b = "".join(ch if ch.isalnum() else "_" for ch in failure["bucket"])[:60]
    path = os.path.join(REPLAY_DIR, "%s-%s-%s.json" % (prop, b, h))
    with open(path, "w") as f:
        f.write(s)
    return path


def fail(bucket, msg, **data):
    return {"bucket": bucket, "msg": msg, "data": data}


def lib_frame(tb_exc):
    """innermost distance3d frame 'file:function' of an exception"""
    frames = traceback.extract_tb(tb_exc.__traceback__)
    for fr in reversed(frames):
        if "distance3d" in fr.filename and "/verif/" not in fr.filename:
            return "%s:%s" % (os.path.basename(fr.filename), fr.name)
    return "?"


class LibError:
    """Result of a library call that raised."""
    def __init__(self, exc):
        self.exc = exc
        self.type = type(exc).__name__
        self.frame = lib_frame(exc)
        self.text = str(exc)[:300]

    def __repr__(self):
        return "LibError(%s at %s: %s)" % (self.type, self.frame, self.text)


def call_lib(fn, *a, **kw):
    """Call library code; exceptions become LibError values (never escape)."""
    try:
        return fn(*a, **kw)
    except Exception as e:      # noqa: BLE001 - the contract under test
        return LibError(e)


def finite(*xs):
    for x in xs:
        if x is None:
            return False
        if not np.all(np.isfinite(np.asarray(x, dtype=float))):
            return False
    return True


def fuzz_cells(target, shards, runs):
    """Thorough-tier cells that run an atheris campaign (vp/fuzz.py), sharded by
    seed; each starts from an empty corpus in a fresh directory."""
    if not os.path.isdir(os.path.join(VERIF, ".deps", "atheris")):
        return []          # setup.sh could not install atheris: tier unavailable
    return [{"name": "fuzz-%s-%d" % (target, i), "fuzz": target, "runs": runs, "cost": 1e7}
            for i in range(shards)]
