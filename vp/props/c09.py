"""C09 - alternative distance algorithms agree with the true distance."""
import os

import numpy as np

from ..common import fail, call_lib, LibError, finite
from ..gen import scenes as S
from ..gen.colliders import KINDS, build
from .narrow import distance_algorithms, pair_tag, exc_fail, is_primitive_pair
from .c01 import check_distance_result, nontrivial, scene_labels

RULE = ("Hypothesis scenes as C01 (all 100 ordered pairs, families free/gap/"
        "deep/aligned, Margin prob 1/4). gjk_distance_original: points on "
        "their colliders, |a-b| = d, d = truth (1e-3*L); Nesterov distance "
        "(plain, raw flag False, flag True) on all pairs incl. mixed "
        "specialised/generic; primitives variant on the 25 primitive pairs: "
        "|max(d,0) - truth| <= 1e-3*L. Iteration helpers must reproduce the "
        "main functions. Non-trivial as C01, plus label mixed-pair.")
ASSUMPTIONS = ["tolerance 1e-3*L"]
N = {"quick": 12, "thorough": 500}
GROUPS = {"gf": ["gap", "free"], "da": ["deep", "aligned"]}
SPECIALISED = {"sphere", "capsule", "box", "ellipsoid", "cylinder"}


def cells(tier):
    out = []
    for a in KINDS:
        for b in KINDS:
            for g in GROUPS:
                out.append({"name": "%s-%s-%s" % (a, b, g), "A": a, "B": b,
                            "group": g, "n": N[tier]})
    if tier == "thorough":
        # coverage-guided campaign over the Voronoi-region trees of the two
        # Nesterov implementations (C09-F2 hid in one branch of them)
        from ..common import fuzz_cells
        out += fuzz_cells("nesterov", 6, 40000)
    return out


def strategy(cell):
    return S.scenes(cell["A"], cell["B"], families=GROUPS[cell["group"]], margin=True)


def check_case(case, cell):
    from distance3d import gjk
    from distance3d.gjk import _gjk_original, _gjk_nesterov_accelerated as _na, \
        _gjk_nesterov_accelerated_primitives as _nap, _gjk_jolt
    tr = S.truth(case)
    L = tr["L"]
    tol = 1e-3 * L
    tag = pair_tag(case)
    A = build(case["A"])
    B = build(case["B"])
    labels = scene_labels(case, tr)
    sa = case["A"]["kind"] in SPECIALISED and not case["A"].get("margin")
    sb = case["B"]["kind"] in SPECIALISED and not case["B"].get("margin")
    if sa != sb:
        labels.append("mixed-pair")
    fails = []
    results = {}
    only = os.environ.get("VP_C09_ONLY")
    for name, fn in distance_algorithms(case).items():
        if only and name not in only.split(","):
            continue
        r = call_lib(fn, A, B)
        if isinstance(r, LibError):
            fails.append(exc_fail(r, name))
            continue
        if name == "original":
            fails += check_distance_result(r, tr, tol, tag, prefix="original-", exact_zero=False)
            r = call_lib(fn, build(case["A"]), build(case["B"]))
            it = call_lib(_gjk_original.gjk_distance_iterations, build(case["A"]), build(case["B"]))
            if isinstance(it, LibError):
                fails.append(exc_fail(it, "gjk_distance_iterations"))
            elif not isinstance(r, LibError) and it != r[4]:
                fails.append(fail("iterations-helper/original", "helper %r vs %r" % (it, r[4])))
        else:
            d, iters = float(r[0]), r[1]
            results[name] = d
            if not finite(d):
                fails.append(fail("nonfinite/%s/%s" % (name, tag), "d=%r" % d, algo=name))
                continue
            if d > tr["hi"] + tol:
                fails.append(fail("%s-too-long/%s" % (name, tag),
                                  "%s d=%.6g after %r iterations, reference pair at %.6g (tol %.3g)" % (
                                      name, d, iters, tr["hi"], tol), algo=name, iterations=iters, d=d))
            if d < tr["lo"] - tol:
                fails.append(fail("%s-too-short/%s" % (name, tag),
                                  "%s d=%.6g after %r iterations, separating plane proves >= %.6g (tol %.3g)" % (
                                      name, d, iters, tr["lo"], tol), algo=name, iterations=iters, d=d))
    for f in fails:
        a = f["data"].get("algo")
        if a in ("nesterov-acc", "nesterov-prim-acc"):
            plain = results.get(a.replace("-acc", "-raw"))
            f["data"]["plain_ok"] = bool(plain is not None and tr["lo"] - tol <= plain <= tr["hi"] + tol)
    if only:
        return fails, {"labels": labels, "nontrivial": nontrivial(case, tr)}
    # fresh objects for each call: a MeshGraph caches its last support vertex,
    # which legitimately changes tie-breaking (and the path) of a second call
    r1 = call_lib(gjk.gjk_nesterov_accelerated, build(case["A"]), build(case["B"]))
    r2 = call_lib(_na.gjk_nesterov_accelerated_iterations, build(case["A"]), build(case["B"]))
    if not isinstance(r1, LibError) and not isinstance(r2, LibError):
        if r1[3] != r2:
            fails.append(fail("iterations-helper/nesterov", "helper %r vs %r" % (r2, r1[3])))
    if is_primitive_pair(case):
        r1 = call_lib(gjk.gjk_nesterov_accelerated_primitives, build(case["A"]), build(case["B"]))
        r2 = call_lib(_nap.gjk_nesterov_accelerated_primitives_iterations, build(case["A"]), build(case["B"]))
        if not isinstance(r1, LibError) and not isinstance(r2, LibError):
            if r1[3] != r2:
                fails.append(fail("iterations-helper/nesterov-prim", "helper %r vs %r" % (r2, r1[3])))
    if hasattr(_gjk_jolt, "gjk_distance_jolt_iterations"):
        rj = call_lib(gjk.gjk_distance_jolt, A, B, max_distance_squared=float("inf"))
        rji = call_lib(_gjk_jolt.gjk_distance_jolt_iterations, A, B, max_distance_squared=float("inf"))
        if isinstance(rji, LibError):
            if not isinstance(rj, LibError):
                fails.append(exc_fail(rji, "gjk_distance_jolt_iterations"))
    return fails, {"labels": labels, "nontrivial": nontrivial(case, tr)}


MAX_ITER = 128


def match_known(f, case, known):
    """C09-K1: accelerated variant (use_nesterov_acceleration=True) stopped by
    the iteration limit; C09-K2: accelerated variant terminates early on a
    value below the true distance although the un-accelerated run of the same
    function on the same input is correct."""
    ids = {k["id"] for k in known}
    d = f.get("data", {})
    if "C09-K3" in ids and f["bucket"].startswith("nonfinite/") and str(d.get("algo", "")).startswith("nesterov"):
        return "C09-K3"
    if d.get("algo") not in ("nesterov-acc", "nesterov-prim-acc"):
        return None
    clause = f["bucket"].split("/")[0]
    if "C09-K1" in ids and d.get("iterations") == MAX_ITER and \
            (clause.endswith("too-long") or clause.endswith("too-short")):
        return "C09-K1"
    if "C09-K2" in ids and clause.endswith("too-short") and d.get("plain_ok") and \
            d.get("iterations") is not None and d["iterations"] < MAX_ITER:
        return "C09-K2"
    return None
