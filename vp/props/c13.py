"""C13 - point containment predicates agree with the shapes, the distance
functions and the support functions."""
import numpy as np
from hypothesis import strategies as st

from ..common import fail, call_lib, LibError
from ..gen import atoms
from ..gen.colliders import specs, build, pose_matrix, mesh_triangles, translate
from ..ref.shapes import ref

RULE = ("Hypothesis: per predicate a shape spec in domain P (sizes "
        "[0.2,1e2], all rotation classes, positions up to 1e3) and a batch of "
        "4-40 points constructed relative to the reference shape: inside with "
        "guaranteed depth k*1e-9*L (k in 2,10,1e3,1e6) along the segment from "
        "the inner centre to a boundary point, outside at exact distance "
        "k*1e-9*L along the outward normal of a support point (incl. axis, "
        "apex, rim, corner directions), centre, far points; order shuffled. "
        "Oracle: reference signed-distance bounds (hi <= -tol -> True, lo >= "
        "tol -> False, else not asserted), library point_to_<shape> distance, "
        "collider support values. Non-trivial: batch has both answers and a "
        "point within 1e-6*L of the boundary.")
ASSUMPTIONS = ["tolerance 1e-9*L", "disk: 'inside' only asserted for exactly representable in-plane points (identity/permutation normal, lattice coordinates)"]
PREDICATES = ["sphere", "capsule", "ellipsoid", "disk", "cone", "cylinder", "box", "mesh"]
N = {"quick": 200, "thorough": 10000}
KS = [2.0, 10.0, 1e3, 1e6]


def cells(tier):
    return [{"name": k, "kind": k, "n": N[tier]} for k in PREDICATES]


@st.composite
def _case(draw, kind):
    spec = draw(specs(kind, size_lo=0.2, size_hi=100.0))
    off = draw(atoms.far_offsets())
    if any(off):
        spec = translate(spec, off)
    R = spec.get("R", np.eye(3).tolist())
    n = draw(st.integers(4, 40))
    pts = []
    for _ in range(n):
        cls = draw(st.sampled_from(["in", "out", "in", "out", "centre", "far", "on"]))
        u = draw(atoms.directions_for(R))
        k = draw(st.sampled_from(KS))
        pts.append({"cls": cls, "u": u, "k": k})
    return {"spec": spec, "pts": pts}


def strategy(cell):
    return _case(cell["kind"])


def make_points(S, pts, L):
    tol = 1e-9 * L
    out = []
    for p in pts:
        u = np.array(p["u"], dtype=float)
        u /= np.linalg.norm(u)
        b = S.support(u)
        c = S.inner_center()
        if p["cls"] == "in":
            r = S.inradius()
            if r > 0:
                s = 1.0 - p["k"] * tol / r
                x = c + max(s, 0.0) * (b - c)
            else:
                x = c + 0.5 * (b - c)
        elif p["cls"] == "out":
            x = b + p["k"] * tol * u
        elif p["cls"] == "centre":
            x = c.copy()
        elif p["cls"] == "far":
            x = b + (1.0 + p["k"] * 1e-3) * S.bounding_radius() * u
        else:
            x = b.copy()
        out.append(x)
    return np.ascontiguousarray(np.array(out, dtype=float))


def call_predicate(spec, P):
    from distance3d import containment_test as CT
    k = spec["kind"]
    T = pose_matrix(spec["R"], spec["p"]) if "R" in spec else None
    if k == "sphere":
        return CT.points_in_sphere(P, T[:3, 3].copy(), spec["radius"])
    if k == "capsule":
        return CT.points_in_capsule(P, T, spec["radius"], spec["height"])
    if k == "ellipsoid":
        return CT.points_in_ellipsoid(P, T, np.array(spec["radii"], dtype=float))
    if k == "disk":
        return CT.points_in_disk(P, T[:3, 3].copy(), spec["radius"], np.ascontiguousarray(T[:3, 2]))
    if k == "cone":
        return CT.points_in_cone(P, T, spec["radius"], spec["height"])
    if k == "cylinder":
        return CT.points_in_cylinder(P, T, spec["radius"], spec["length"])
    if k == "box":
        return CT.points_in_box(P, T, np.array(spec["size"], dtype=float))
    if k == "mesh":
        V = np.ascontiguousarray(np.array(spec["vertices"], dtype=float))
        return CT.points_in_convex_mesh(P, T, V, mesh_triangles(V))
    raise ValueError(k)


def lib_distance(spec, x):
    from distance3d import distance as D
    k = spec["kind"]
    T = pose_matrix(spec["R"], spec["p"])
    x = np.ascontiguousarray(x)
    if k == "disk":
        return D.point_to_disk(x, T[:3, 3].copy(), spec["radius"], np.ascontiguousarray(T[:3, 2]))[0]
    if k == "box":
        return D.point_to_box(x, T, np.array(spec["size"], dtype=float))[0]
    if k == "ellipsoid":
        return D.point_to_ellipsoid(x, T, np.array(spec["radii"], dtype=float))[0]
    if k == "cylinder":
        return D.point_to_cylinder(x, T, spec["radius"], spec["length"])[0]
    return None


def check_case(case, cell):
    spec = case["spec"]
    kind = spec["kind"]
    S = ref(spec)
    L = max(1.0, S.feature_size())
    tol = 1e-9 * L
    P = make_points(S, case["pts"], L)
    res = call_lib(call_predicate, spec, P)
    labels = [kind, "rot:" + atoms.rotation_class(spec.get("R", np.eye(3)))]
    if isinstance(res, LibError):
        return [fail("exception/%s/%s" % (kind, res.type), repr(res))], {"labels": labels, "nontrivial": True}
    res = np.asarray(res)
    fails = []
    if res.shape != (len(P),) or res.dtype != bool:
        return [fail("shape/" + kind, "result shape %r dtype %r for %d points" % (res.shape, res.dtype, len(P)))], {"labels": labels, "nontrivial": True}
    exact_plane = kind != "disk" or (atoms.is_signed_perm(spec["R"]) and
                                     all(float(v) == round(float(v) * 2) / 2 for v in spec["p"]))
    collider = build(spec)
    n_true = n_false = n_near = und = 0
    for i, x in enumerate(P):
        lo, hi = S.sdist(x)
        exp = None
        if hi <= -tol and not S.flat:
            exp = True
        elif S.flat and hi <= 0.0 and exact_plane and case["pts"][i]["cls"] in ("centre",):
            exp = True
        elif lo >= tol:
            exp = False
        if min(abs(lo), abs(hi)) <= 1e-6 * L:
            n_near += 1
        if exp is None:
            und += 1
            continue
        n_true += exp
        n_false += (not exp)
        if bool(res[i]) != exp:
            fails.append(fail("%s/%s" % ("missed-inside" if exp else "accepted-outside", kind),
                              "point %d (%s, k=%g) signed distance in [%.3g, %.3g], predicate says %r (tol %.3g)" % (
                                  i, case["pts"][i]["cls"], case["pts"][i]["k"], lo, hi, bool(res[i]), tol),
                              point=x.tolist()))
            continue
        d = call_lib(lib_distance, spec, x)
        if isinstance(d, LibError):
            fails.append(fail("exception/point_to_%s/%s" % (kind, d.type), repr(d)))
        elif d is not None:
            if exp and d > tol:
                fails.append(fail("distance-disagrees/" + kind,
                                  "contained point has point_to_%s distance %.3g" % (kind, d)))
            if not exp and not d > 0.0:
                fails.append(fail("distance-disagrees/" + kind,
                                  "excluded point (>= %.3g outside) has point_to_%s distance 0" % (lo, kind)))
        if exp:
            for e in np.vstack([np.eye(3), -np.eye(3)]):
                sp = call_lib(collider.support_function, np.ascontiguousarray(e))
                if isinstance(sp, LibError):
                    continue
                if float(e.dot(x)) > float(e.dot(sp)) + tol:
                    fails.append(fail("support-disagrees/" + kind,
                                      "contained point projects %.3g beyond the support value along %r" % (
                                          float(e.dot(x)) - float(e.dot(sp)), e.tolist())))
                    break
        if len(fails) > 3:
            break
    nt = n_true > 0 and n_false > 0 and n_near > 0
    return fails, {"labels": labels, "nontrivial": bool(nt), "undecided": 0,
                   "counters": {"points": len(P), "points_not_asserted": und,
                                "points_true": n_true, "points_false": n_false}}


def match_known(f, case, known):
    return None
