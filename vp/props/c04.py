"""C04 - AABBs enclose the shape and are tight on every axis."""
import numpy as np
from hypothesis import strategies as st

from ..common import fail, call_lib, LibError, finite
from ..gen import atoms, scenes as S
from ..gen.colliders import KINDS, specs, build, translate, pose_matrix
from ..ref.shapes import ref

RULE = ("Hypothesis: (a) collider.aabb() for all ten kinds (+Margin), poses "
        "identity/signed permutation/special/near-aligned (tilt 1e-12..1e-1)/"
        "random/composed, positions up to 1e3, and the matching free function "
        "of distance3d.containment; (b) RigidBody.aabb() for the six "
        "factories at general poses, optionally after express_in; (c) deep "
        "overlap scenes of all pairs: AABBs must overlap. Oracle: bound on "
        "axis i must equal the closed-form support value h(+-e_i) of the "
        "reference shape (enclosure and tightness at once); RigidBody: bounds "
        "of the world-frame vertices. Non-trivial: rotation not a signed "
        "permutation, or axis within 1e-3 of a coordinate axis; (c): "
        "constructed overlap. Distinct by hash of the spec.")
ASSUMPTIONS = ["tolerance 1e-9*L, L = max(1, feature size)"]
N = {"quick": 300, "thorough": 20000}
N_BODY = {"quick": 12, "thorough": 300}
N_PAIR = {"quick": 10, "thorough": 400}
FACTORIES = ["sphere", "ellipsoid", "cube", "box", "cylinder", "capsule"]


def cells(tier):
    out = [{"name": "aabb-" + k, "what": "collider", "kind": k, "n": N[tier]} for k in KINDS]
    out += [{"name": "body-" + f, "what": "body", "factory": f, "n": N_BODY[tier],
             "cost": N_BODY[tier] * 500} for f in FACTORIES]
    for a in KINDS:
        for b in KINDS:
            if a <= b:
                out.append({"name": "overlap-%s-%s" % (a, b), "what": "overlap",
                            "A": a, "B": b, "n": N_PAIR[tier]})
    return out


@st.composite
def _collider_case(draw, kind):
    spec = draw(specs(kind, margin=True))
    off = draw(atoms.far_offsets())
    if any(off):
        spec = translate(spec, off)
    return {"spec": spec}


@st.composite
def body_case(draw, factory, size_lo=0.05, size_hi=20.0):
    sz = atoms.sizes(size_lo, size_hi)
    R = draw(atoms.rotations())
    p = draw(st.one_of(atoms.positions(10.0), atoms.pos_ball(500.0)))
    c = {"factory": factory, "R": R, "p": p}
    if factory == "sphere":
        c["radius"] = draw(sz)
        c["order"] = draw(st.integers(0, 2))
    elif factory == "ellipsoid":
        c["radii"] = [draw(sz), draw(sz), draw(sz)]
        c["order"] = draw(st.integers(0, 2))
    elif factory == "cube":
        c["size"] = draw(sz)
    elif factory == "box":
        c["size"] = [draw(sz), draw(sz), draw(sz)]
    else:
        r = draw(sz)
        c["radius"] = r
        c["length" if factory == "cylinder" else "height"] = draw(sz)
        c["hint_div"] = draw(st.sampled_from([4, 6, 8, 12]))
    if draw(st.booleans()):
        c["express_in"] = {"R": draw(atoms.rotations()), "p": draw(atoms.positions(10.0))}
    if draw(st.booleans()):
        c["update_pose"] = {"R": draw(atoms.rotations()), "p": draw(atoms.positions(10.0))}
    return c


def make_body(c):
    from distance3d.hydroelastic_contact import RigidBody
    T = pose_matrix(c["R"], c["p"])
    f = c["factory"]
    if f == "sphere":
        return RigidBody.make_sphere(T[:3, 3].copy(), c["radius"], c["order"])
    if f == "ellipsoid":
        return RigidBody.make_ellipsoid(T, np.array(c["radii"], dtype=float), c["order"])
    if f == "cube":
        return RigidBody.make_cube(T, c["size"])
    if f == "box":
        return RigidBody.make_box(T, np.array(c["size"], dtype=float))
    hint = 2 * np.pi * c["radius"] / c["hint_div"]
    if f == "cylinder":
        return RigidBody.make_cylinder(T, c["radius"], c["length"], resolution_hint=hint)
    return RigidBody.make_capsule(T, c["radius"], c["height"], resolution_hint=hint)


def strategy(cell):
    if cell["what"] == "collider":
        return _collider_case(cell["kind"])
    if cell["what"] == "body":
        return body_case(cell["factory"])
    return S.scenes(cell["A"], cell["B"], families=["deep"], margin=True)


def ref_aabb(Sref):
    lo = np.array([-Sref.h(-e) for e in np.eye(3)])
    hi = np.array([Sref.h(e) for e in np.eye(3)])
    return lo, hi


def compare_box(box, lo, hi, tol, tag, Sref=None):
    fails = []
    box = np.asarray(box, dtype=float)
    if box.shape != (3, 2) or not finite(box):
        return [fail("nonfinite/" + tag, "aabb = %r" % (box.tolist(),), box=box.tolist())]
    dlo = box[:, 0] - lo      # >0: too small at the lower side
    dhi = hi - box[:, 1]      # >0: too small at the upper side
    small = max(float(dlo.max()), float(dhi.max()))
    big = max(float((-dlo).max()), float((-dhi).max()))
    if small > tol:
        ax = int(np.argmax(np.maximum(dlo, dhi)))
        wit = None
        if Sref is not None:
            e = np.eye(3)[ax]
            wit = Sref.support(e if dhi[ax] >= dlo[ax] else -e).tolist()
        fails.append(fail("too-small/" + tag,
                          "aabb misses the shape by %.3g on axis %d (tol %.3g)" % (small, ax, tol),
                          witness=wit, box=box.tolist(), ref=[lo.tolist(), hi.tolist()]))
    if big > tol:
        fails.append(fail("not-tight/" + tag,
                          "aabb is %.3g larger than the shape (tol %.3g)" % (big, tol),
                          box=box.tolist(), ref=[lo.tolist(), hi.tolist()]))
    return fails


def free_function(spec):
    """(mins, maxs) of the matching free function of distance3d.containment"""
    from distance3d import containment as C
    k = spec["kind"]
    if k in ("hull",):
        return C.axis_aligned_bounding_box(np.array(spec["vertices"], dtype=float))
    T = pose_matrix(spec["R"], spec["p"])
    if k == "mesh":
        V = np.array(spec["vertices"], dtype=float)
        return C.axis_aligned_bounding_box(V.dot(T[:3, :3].T) + T[:3, 3])
    if k == "sphere":
        return C.sphere_aabb(T[:3, 3].copy(), spec["radius"])
    if k == "box":
        return C.box_aabb(T, np.array(spec["size"], dtype=float))
    if k == "cylinder":
        return C.cylinder_aabb(T, spec["radius"], spec["length"])
    if k == "capsule":
        return C.capsule_aabb(T, spec["radius"], spec["height"])
    if k == "ellipsoid":
        return C.ellipsoid_aabb(T, np.array(spec["radii"], dtype=float))
    if k == "disk":
        return C.disk_aabb(T[:3, 3].copy(), spec["radius"], T[:3, 2].copy())
    if k == "cone":
        return C.cone_aabb(T, spec["radius"], spec["height"])
    if k == "ellipse":
        return C.ellipse_aabb(T[:3, 3].copy(), np.ascontiguousarray(T[:3, :2].T),
                              np.array(spec["radii"], dtype=float))
    raise ValueError(k)


def check_collider(case):
    spec = case["spec"]
    Sref = ref(spec)
    L = max(1.0, Sref.feature_size())
    tol = 1e-9 * L
    tag = spec["kind"] + ("+m" if spec.get("margin") else "")
    fails = []
    obj = build(spec)
    box = call_lib(obj.aabb)
    lo, hi = ref_aabb(Sref)
    if isinstance(box, LibError):
        fails.append(fail("exception/%s/%s" % (box.type, box.frame), repr(box)))
    else:
        fails += compare_box(box, lo, hi, tol, tag, Sref)
    # the free function, without margin
    inner = dict(spec)
    inner.pop("margin", None)
    Sin = ref(inner)
    r = call_lib(free_function, inner)
    if isinstance(r, LibError):
        fails.append(fail("exception/%s/%s" % (r.type, r.frame), "free function: %r" % r))
    else:
        lo2, hi2 = ref_aabb(Sin)
        fb = np.array([np.asarray(r[0], dtype=float), np.asarray(r[1], dtype=float)]).T
        fails += compare_box(fb, lo2, hi2, 1e-9 * max(1.0, Sin.feature_size()),
                             "fn-" + spec["kind"], Sin)
    R = spec.get("R", np.eye(3).tolist())
    rc = atoms.rotation_class(R)
    labels = [spec["kind"], "rot:" + rc]
    if spec.get("margin"):
        labels.append("margin")
    if np.linalg.norm(Sref.center()) > 50:
        labels.append("far")
    return fails, {"labels": labels, "nontrivial": rc in ("near-aligned", "general")}


def check_body(c):
    from distance3d.utils import transform_points
    fails = []
    body = call_lib(make_body, c)
    tag = c["factory"]
    if isinstance(body, LibError):
        return [fail("exception/%s/%s" % (body.type, body.frame), repr(body))], {"labels": [tag], "nontrivial": False}
    labels = [tag, "rot:" + atoms.rotation_class(c["R"])]
    size = max(np.abs(np.asarray(body.vertices_)).max(), 1.0)
    for stage in ("fresh", "expressed", "moved"):
        if stage == "moved":
            # the BVH calls aabb(), then update_pose(new), then aabb() again
            if "update_pose" not in c:
                break
            labels.append("update_pose")
            e = c["update_pose"]
            r = call_lib(body.update_pose, pose_matrix(e["R"], e["p"]))
            if isinstance(r, LibError):
                fails.append(fail("exception/%s/%s" % (r.type, r.frame), repr(r)))
                break
        if stage == "expressed":
            if "express_in" not in c:
                continue
            labels.append("express_in")
            e = c["express_in"]
            r = call_lib(body.express_in, pose_matrix(e["R"], e["p"]))
            if isinstance(r, LibError):
                fails.append(fail("exception/%s/%s" % (r.type, r.frame), repr(r)))
                break
        W = np.asarray(body.vertices_, dtype=float).dot(
            np.asarray(body.body2origin_)[:3, :3].T) + np.asarray(body.body2origin_)[:3, 3]
        lo, hi = W.min(axis=0), W.max(axis=0)
        box = call_lib(body.aabb)
        if isinstance(box, LibError):
            fails.append(fail("exception/%s/%s" % (box.type, box.frame), repr(box)))
            break
        fails += compare_box(box, lo, hi, 1e-9 * max(1.0, size), "body-%s-%s" % (tag, stage))
    nt = atoms.rotation_class(c["R"]) in ("near-aligned", "general") or \
        float(np.linalg.norm(c["p"])) > 0
    return fails, {"labels": labels, "nontrivial": nt}


def check_overlap(case):
    tr = S.truth(case)
    fails = []
    tag = "%s-%s" % (case["A"]["kind"], case["B"]["kind"])
    labels = list(case.get("labels", ()))
    if tr["common"] is None:
        return [], {"labels": labels + ["no-common-point"], "nontrivial": False, "undecided": 1}
    A = build(case["A"])
    B = build(case["B"])
    ba = call_lib(A.aabb)
    bb = call_lib(B.aabb)
    for r in (ba, bb):
        if isinstance(r, LibError):
            return [fail("exception/%s/%s" % (r.type, r.frame), repr(r))], {"labels": labels, "nontrivial": True}
    ba = np.asarray(ba, dtype=float)
    bb = np.asarray(bb, dtype=float)
    # the common point is certified within 1e-9*L only (two coplanar disks
    # whose planes are 5e-78 apart "share" it): the boxes must overlap within
    # the same slack
    slack = 1e-9 * tr["L"]
    ov = bool(np.all(ba[:, 0] <= bb[:, 1] + slack) and np.all(ba[:, 1] >= bb[:, 0] - slack))
    if not ov:
        fails.append(fail("overlap-discarded/" + tag,
                          "colliders share the point %r but their AABBs do not overlap" % (tr["common"].tolist(),),
                          boxA=ba.tolist(), boxB=bb.tolist()))
    return fails, {"labels": labels, "nontrivial": True}


def check_case(case, cell):
    what = cell.get("what") or ("collider" if "spec" in case else
                                "body" if "factory" in case else "overlap")
    if what == "collider":
        return check_collider(case)
    if what == "body":
        return check_body(case)
    return check_overlap(case)


def _wrong_ellipsoid_extent(spec):
    R = np.array(spec["R"], dtype=float)
    r = np.array(spec["radii"], dtype=float)
    M = np.einsum("ij,kj,j->ik", R, R, r)     # M[i,k] = sum_j R[i,j] R[k,j] r_j
    return M.max(axis=0)


def match_known(f, case, known):
    """C04-K1: ellipsoid_aabb returns max_i sum_j R[i,j] R[k,j] r_j as extent
    (exactly this wrong value, centred correctly)."""
    ids = {k["id"] for k in known}
    b = f["bucket"]
    if "C04-K1" in ids and "spec" in case and case["spec"]["kind"] == "ellipsoid" and \
            b.split("/")[0] in ("too-small", "not-tight") and \
            b.split("/")[1] in ("ellipsoid", "ellipsoid+m", "fn-ellipsoid"):
        spec = case["spec"]
        box = np.array(f["data"]["box"], dtype=float)
        m = spec.get("margin", 0.0) if b.split("/")[1] == "ellipsoid+m" else 0.0
        ext = _wrong_ellipsoid_extent(spec) + m
        p = np.array(spec["p"], dtype=float)
        L = max(1.0, max(spec["radii"]) + m)
        if np.allclose(box[:, 0], p - ext, rtol=0, atol=1e-9 * L) and \
                np.allclose(box[:, 1], p + ext, rtol=0, atol=1e-9 * L):
            return "C04-K1"
    if "C04-K1" in ids and b.startswith("overlap-discarded/") and \
            "ellipsoid" in (case["A"]["kind"], case["B"]["kind"]):
        # consequence of K1: only when recomputing the ellipsoid boxes
        # correctly makes the boxes overlap
        from ..gen.colliders import build as _b
        boxes = []
        for s, key in ((case["A"], "boxA"), (case["B"], "boxB")):
            if s["kind"] == "ellipsoid":
                lo, hi = ref_aabb(ref(s))
                boxes.append(np.array([lo, hi]).T)
            else:
                boxes.append(np.array(f["data"][key], dtype=float))
        ba, bb = boxes
        if np.all(ba[:, 0] <= bb[:, 1]) and np.all(ba[:, 1] >= bb[:, 0]):
            return "C04-K1"
    return None
