"""C19 - narrow-phase entry points terminate within the support budget with
finite results; the only exception is EPA's capacity assertion for smooth shapes."""
import os
import sys

import numpy as np
from hypothesis import strategies as st

from ..common import fail, call_lib, LibError, finite
from ..gen import atoms, scenes as S
from ..gen.colliders import KINDS, specs, build
from ..ref.polytope import is_polytope
from ..ref.shapes import ref
from .narrow import is_primitive_pair, pair_tag

RULE = ("Hypothesis scenes over all 100 ordered pairs: C01's families (free/"
        "gap/deep/aligned, Margin prob 1/4) plus extremes: aspect ratios up to "
        "1e4 (needle/plate hulls, extreme capsules/cylinders/boxes), the same "
        "object passed twice, zero-volume hulls (single vertex, segment, "
        "planar), coplanar disk/ellipse pairs, lattice placements, touching. "
        "Entry points: gjk_distance_jolt/original/nesterov(+acc)/primitives, "
        "the five boolean tests, gjk->epa, mpr_intersection/penetration. "
        "Oracle (a): support_function of both collider instances shadowed by a "
        "counter that raises at call 1001 (Nesterov specialised supports: "
        "returned iteration count); (b) in NUMBA_DISABLE_JIT=1 mode the same "
        "calls under sys.monitoring with a budget of 2e7 LINE|JUMP|BRANCH "
        "events (every loop is then a Python loop); (c) outputs finite except "
        "the MAX_FLOAT/None clip tuple; exceptions other than EPA's capacity "
        "AssertionError with a non-polytope collider are violations. "
        "Non-trivial: every scene except far 'free' ones.")
ASSUMPTIONS = ["bounded form only: at most 1000 support evaluations per collider and call; liveness is not provable by testing",
               "wall-clock time-outs are reported as inconclusive (exit 2), never as violations"]
N = {"quick": 12, "thorough": 400}
N_NOJIT = {"quick": 2, "thorough": 25}
BUDGET = 1000
EVENT_BUDGET = 20_000_000


class BudgetExceeded(Exception):
    pass


def cells(tier):
    out = []
    for a in KINDS:
        for b in KINDS:
            out.append({"name": "%s-%s" % (a, b), "A": a, "B": b, "n": N[tier]})
    for a in KINDS:
        for b in KINDS:
            out.append({"name": "nojit-%s-%s" % (a, b), "A": a, "B": b, "n": N_NOJIT[tier],
                        "mode": "nojit", "cost": N_NOJIT[tier] * 300})
    return out


@st.composite
def _extreme(draw, kindA, kindB):
    """extreme aspect ratios / degenerate hulls / identical objects"""
    def sp(kind):
        s = draw(specs(kind, margin=False, degenerate_hulls=True))
        big, small = 100.0, 0.01
        mode = draw(st.sampled_from(["needle", "plate", "as-is"]))
        if mode != "as-is":
            if "height" in s and "radius" in s:
                s["radius"], s["height"] = (small, big) if mode == "needle" else (big, small)
            if "length" in s and "radius" in s:
                s["radius"], s["length"] = (small, big) if mode == "needle" else (big, small)
            if "size" in s:
                s["size"] = [big, small, small] if mode == "needle" else [big, big, small]
            if "radii" in s and len(s["radii"]) == 3:
                s["radii"] = [big, small, small] if mode == "needle" else [big, big, small]
            if "radii" in s and len(s["radii"]) == 2:
                s["radii"] = [big, small]
        return s
    sa, sb = sp(kindA), sp(kindB)
    rel = draw(st.sampled_from(["identical", "centre", "touch-ish", "lattice"]))
    if rel == "identical" and kindA == kindB:
        sb = dict(sa)
    A, B = ref(sa), ref(sb)
    from ..gen.colliders import translate
    if rel in ("identical", "centre"):
        sb = translate(sb, A.center() - B.center())
    elif rel == "touch-ish":
        n = atoms.unit(draw(atoms.directions_for(sa.get("R", np.eye(3).tolist()))))
        sb = translate(sb, A.support(n) - B.support(-n))
    else:
        sb = translate(sb, np.array(draw(atoms.pos_lattice)) - B.center())
        sa = translate(sa, np.array(draw(atoms.pos_lattice)) - A.center())
    return {"A": sa, "B": sb, "family": "extreme", "wit": {}, "labels": ["extreme", "rel:" + rel],
            "same_object": rel == "identical" and draw(st.booleans())}


def strategy(cell):
    return st.one_of(S.scenes(cell["A"], cell["B"], margin=True), _extreme(cell["A"], cell["B"]))


class Counter:
    def __init__(self, obj):
        self.n = 0
        self.obj = obj
        orig = obj.support_function

        def counted(d):
            self.n += 1
            if self.n > BUDGET:
                raise BudgetExceeded("support evaluation %d" % self.n)
            return orig(d)
        obj.support_function = counted     # instance attribute shadows the method


def _monitored(fn):
    """Run fn() under a sys.monitoring event budget (nojit mode only)."""
    mon = sys.monitoring
    tool = mon.PROFILER_ID
    state = {"n": 0, "armed": True}
    ev = mon.events.LINE | mon.events.JUMP | mon.events.BRANCH

    def cb(*a):
        state["n"] += 1
        if state["n"] > EVENT_BUDGET and state["armed"]:
            state["armed"] = False
            mon.set_events(tool, 0)
            raise BudgetExceeded("more than %d interpreter events" % EVENT_BUDGET)
    try:
        mon.use_tool_id(tool, "vp-c19")
    except ValueError:
        mon.free_tool_id(tool)
        mon.use_tool_id(tool, "vp-c19")
    for e in (mon.events.LINE, mon.events.JUMP, mon.events.BRANCH):
        mon.register_callback(tool, e, cb)
    mon.set_events(tool, ev)
    try:
        return fn()
    finally:
        mon.set_events(tool, 0)
        for e in (mon.events.LINE, mon.events.JUMP, mon.events.BRANCH):
            mon.register_callback(tool, e, None)
        mon.free_tool_id(tool)


def entry_points(case):
    from distance3d import gjk, mpr
    from distance3d.epa import epa

    def gjk_epa(a, b):
        r = gjk.gjk(a, b)
        if r[0] == 0.0:
            # the rows GJK did not write are uninitialised memory: keep the
            # array that is handed over, a second call would see another one
            LAST_SIMPLEX[0] = np.array(r[3], dtype=float)
            return epa(r[3], a, b)[0]
        return r[0]
    ep = {
        "gjk_distance_jolt": lambda a, b: gjk.gjk_distance_jolt(a, b)[:3],
        "gjk_distance_jolt-noclip": lambda a, b: gjk.gjk_distance_jolt(a, b, max_distance_squared=float("inf"))[:3],
        "gjk_distance_original": lambda a, b: gjk.gjk_distance_original(a, b)[:3],
        "nesterov_distance": gjk.gjk_nesterov_accelerated_distance,
        "nesterov_acc": lambda a, b: gjk.gjk_nesterov_accelerated(a, b, use_nesterov_acceleration=True)[1],
        "gjk_intersection_jolt": gjk.gjk_intersection_jolt,
        "gjk_intersection_libccd": gjk.gjk_intersection_libccd,
        "nesterov_intersection": gjk.gjk_nesterov_accelerated_intersection,
        "mpr_intersection": mpr.mpr_intersection,
        "mpr_penetration": lambda a, b: [x for x in mpr.mpr_penetration(a, b)[1:] if x is not None],
        "gjk+epa": gjk_epa,
    }
    if is_primitive_pair(case):
        ep["nesterov_prim_distance"] = gjk.gjk_nesterov_accelerated_primitives_distance
        ep["nesterov_prim_intersection"] = gjk.gjk_nesterov_accelerated_primitives_intersection
        ep["nesterov_prim_acc"] = lambda a, b: gjk.gjk_nesterov_accelerated_primitives(
            a, b, use_nesterov_acceleration=True)[1]
    return ep


def _flatten(x):
    if x is None:
        return []
    if isinstance(x, (bool, np.bool_)):
        return []
    if isinstance(x, (list, tuple)):
        out = []
        for y in x:
            out += _flatten(y)
        return out
    return list(np.asarray(x, dtype=float).ravel())


def check_case(case, cell):
    from distance3d.utils import MAX_FLOAT
    tag = pair_tag(case)
    labels = list(case.get("labels", ()))
    nojit = os.environ.get("NUMBA_DISABLE_JIT") == "1"
    poly = is_polytope(ref(case["A"])) and is_polytope(ref(case["B"]))
    fails = []
    maxcount = 0
    for name, fn in entry_points(case).items():
        a = build(case["A"])
        b = a if case.get("same_object") else build(case["B"])
        ca, cb = Counter(a), (Counter(b) if b is not a else None)

        def run():
            return fn(a, b)
        r = call_lib(_monitored, run) if nojit else call_lib(run)
        maxcount = max(maxcount, ca.n, cb.n if cb else 0)
        if isinstance(r, LibError):
            if r.type == "BudgetExceeded":
                fails.append(fail("budget/%s/%s" % (name, tag), "%s: %s" % (name, r.text)))
            elif name == "gjk+epa" and r.type == "AssertionError" and not poly and "epa.py" in r.frame:
                labels.append("epa-capacity-smooth")
            else:
                fails.append(fail("exception/%s/%s/%s" % (name, r.type, r.frame), "%s raised %r" % (name, r),
                                  entry=name, etype=r.type, frame=r.frame, simplex=_simplex_class(case, name)))
            continue
        vals = _flatten(r)
        if name == "gjk_distance_jolt" and vals and vals[0] == MAX_FLOAT:
            labels.append("clipped")
            continue
        if not all(np.isfinite(v) for v in vals):
            fails.append(fail("nonfinite/%s/%s" % (name, tag), "%s returned %r" % (name, r), entry=name,
                              simplex=_simplex_class(case, name)))
    nt = case["family"] != "free" or "f:5" not in labels
    return fails, {"labels": labels + (["nojit"] if nojit else []), "nontrivial": bool(nt),
                   "maxima": {"max_support_evaluations": maxcount}}


LAST_SIMPLEX = [None]


def _simplex_class(case, name):
    """class of the simplex gjk handed to epa (see c07.simplex_class), incl.
    the stale-row test: every row must be a point of A - B"""
    if name != "gjk+epa" or LAST_SIMPLEX[0] is None:
        return None
    from .c07 import simplex_class
    from ..ref.refdist import refdist
    from ..gen.colliders import translate
    W = LAST_SIMPLEX[0]
    L = max(1.0, ref(case["A"]).feature_size(), ref(case["B"]).feature_size())
    cls = simplex_class(W, L)[0]
    if cls.startswith("tetra"):
        sb = case["A"] if case.get("same_object") else case["B"]
        for w in W:
            if refdist(ref(case["A"]), ref(translate(sb, w)), scale=L)["lower"] > 1e-6 * L:
                return "stale-row"
    return cls


def match_known(f, case, known):
    """C19-K1 = C07-K1 (EPA after an incomplete GJK simplex: exception or NaN);
    C19-K2 = Nesterov GJK returns NaN when its simplex gets duplicate rows."""
    from .c07 import BAD_SIMPLEX
    ids = {k["id"] for k in known}
    d = f.get("data", {})
    clause = f["bucket"].split("/")[0]
    if "C19-K1" in ids and d.get("entry") == "gjk+epa" and d.get("simplex") in BAD_SIMPLEX:
        return "C19-K1"
    if "C19-K2" in ids and clause == "nonfinite" and str(d.get("entry", "")).startswith("nesterov"):
        return "C19-K2"
    if "C19-K3" in ids and d.get("entry") == "gjk+epa" and d.get("etype") == "AssertionError" and \
            "epa.py" in str(d.get("frame")) and d.get("simplex") in ("tetra+", "tetra-") and \
            not case.get("same_object"):
        from .c07 import capacity_only
        if capacity_only(case):
            return "C19-K3"
    return None
