"""C16 - hydroelastic contact forces: action-reaction, symmetry, invariance."""
import numpy as np
from hypothesis import strategies as st

from ..common import fail, call_lib, LibError, finite
from ..gen import atoms
from ..gen.colliders import pose_matrix
from .c04 import body_case, make_body
from .c15 import _body_radius

RULE = ("Hypothesis body pairs from all six factories, BOTH at general "
        "poses (random rotations), overlap 5-60% of the size; a common rigid "
        "motion g; histories: repeat the same call on the same objects, "
        "interleave contact_forces(b1,b2), (b1,b3), (b1,b2) so that body 1 is "
        "re-expressed in changing frames. Fresh bodies per variant from the "
        "same spec. Oracle (5% of |f|): f12 = -f21; swapped call swaps the "
        "wrenches; g-moved scene gives G f; repeated / interleaved call "
        "reproduces; intersection flag identical; use_aabb_trees=True yields "
        "exactly the same set of intersecting tetrahedron pairs. Non-trivial: "
        "intersection true and body 2 rotation not a signed permutation.")
ASSUMPTIONS = ["5% of the force magnitude with an absolute floor of 1e-12",
               "torques are compared through swap and repeat only"]
FACTORIES = ["sphere", "ellipsoid", "cube", "box", "cylinder", "capsule"]
N = {"quick": 4, "thorough": 60}


def cells(tier):
    out = []
    for a in FACTORIES:
        for b in FACTORIES:
            out.append({"name": "%s-%s" % (a, b), "A": a, "B": b, "n": N[tier],
                        "cost": N[tier] * 3000})
    return out


@st.composite
def _case(draw, fa, fb):
    def body(f):
        c = draw(body_case(f, 0.2, 5.0))
        c.pop("express_in", None)
        # resolutions at which the 5% "discretisation noise" of the property
        # is meaningful (a sphere body cannot be rotated: only its centre is
        # passed to the factory, so the moved scene has a differently
        # oriented icosphere)
        if "order" in c:
            c["order"] = 2
        if "hint_div" in c:
            c["hint_div"] = draw(st.sampled_from([8, 12]))
        c["R"] = draw(atoms.rotations(("random", "random", "perm", "composed")))
        return c
    a, b, c3 = body(fa), body(fb), body(draw(st.sampled_from(FACTORIES)))
    ra, rb = _body_radius(a), _body_radius(b)
    u = atoms.unit(draw(atoms.dir_random))
    f = draw(st.sampled_from([0.2, 0.4, 0.6, 0.8]))
    # clear partial overlap: the inscribed balls (radii ia, ib) overlap by
    # pen = f * min(ia, ib) and neither contains the other's centre
    # ... and by more than the bodies' meshes deviate from the ideal shapes
    # (icosphere of order 2: 1.5 % of the radius; 8 segments: 8 %), otherwise
    # the polyhedral bodies may not touch at all in one of the two frames.
    # Where the shapes do not allow that (a small or thin body against a large
    # curved one) the case is marked and the relations under a rigid motion,
    # which re-orients a sphere's facets relative to its partner, are not
    # asserted for it.
    ia, ib = _inradius(a), _inradius(b)
    need = 2.5 * (_mesh_error(a) + _mesh_error(b))
    robust = need <= 0.8 * min(ia, ib)
    pen = min(max(f * min(ia, ib), need), 0.8 * min(ia, ib))
    b["p"] = (np.array(a["p"]) + (ia + ib - pen) * u).tolist()
    c3["p"] = (np.array(a["p"]) - 0.5 * min(ra, _body_radius(c3)) * u).tolist()
    g = {"R": draw(atoms.rotations(("random", "perm", "special"))),
         "t": draw(st.one_of(atoms.positions(10.0), atoms.pos_ball(300.0)))}
    ym = [draw(st.sampled_from([1.0, 0.01, 100.0, 3.0])) for _ in range(2)]
    return {"a": a, "b": b, "c": c3, "g": g, "ym": ym, "robust_overlap": bool(robust)}


def _inradius(c):
    f = c["factory"]
    if f == "sphere":
        return c["radius"]
    if f == "ellipsoid":
        return min(c["radii"])
    if f == "cube":
        return c["size"] / 2
    if f == "box":
        return min(c["size"]) / 2
    if f == "cylinder":
        return min(c["radius"], c["length"] / 2)
    return c["radius"]


def _mesh_error(c):
    """Upper estimate of the distance between the tetrahedral mesh of a body
    and the ideal shape it approximates."""
    f = c["factory"]
    if f == "sphere":
        return 0.015 * c["radius"]
    if f == "ellipsoid":
        return 0.015 * max(c["radii"])
    if f in ("cylinder", "capsule"):
        return 0.08 * c["radius"]
    return 0.0


def _robust_overlap(case):
    """The inscribed balls of the two bodies overlap by at least 2.5 times the
    mesh errors of both (computed from the specs, so that saved cases are
    judged the same way)."""
    a, b = case["a"], case["b"]
    ia, ib = _inradius(a), _inradius(b)
    need = 2.5 * (_mesh_error(a) + _mesh_error(b))
    pen = ia + ib - float(np.linalg.norm(np.array(b["p"], dtype=float) - np.array(a["p"], dtype=float)))
    return need <= 0.8 * min(ia, ib) and pen >= need * (1.0 - 1e-9)


def strategy(cell):
    return _case(cell["A"], cell["B"])


def moved(c, g):
    G = np.array(g["R"])
    t = np.array(g["t"])
    d = dict(c)
    d["R"] = G.dot(np.array(c["R"])).tolist()
    d["p"] = (G.dot(np.array(c["p"])) + t).tolist()
    return d


def _bodies(case, keys):
    out = []
    for k, ym in zip(keys, case["ym"] + [1.0]):
        b = make_body(case[k] if isinstance(k, str) else k)
        out.append(b)
    return out


def check_case(case, cell):
    from distance3d.hydroelastic_contact import contact_forces, find_contact_surface
    labels = [case["a"]["factory"], case["b"]["factory"]]
    fails = []

    def fresh(spec, ym):
        b = make_body(spec)
        b.youngs_modulus = ym
        return b

    def cf(sa, ya, sb, yb):
        return contact_forces(fresh(sa, ya), fresh(sb, yb))
    ya, yb = case["ym"]
    r = call_lib(cf, case["a"], ya, case["b"], yb)
    if isinstance(r, LibError):
        return [fail("exception/contact_forces/" + r.type, repr(r))], {"labels": labels, "nontrivial": True}
    inter, w12, w21 = r
    w12 = np.asarray(w12, dtype=float)
    w21 = np.asarray(w21, dtype=float)
    if not finite(w12, w21):
        return [fail("nonfinite", "w12=%r w21=%r" % (w12, w21))], {"labels": labels, "nontrivial": True}
    fmag = float(np.linalg.norm(w12[:3]))
    tolf = 0.05 * fmag + 1e-12
    tmag = max(float(np.linalg.norm(w12[3:])), float(np.linalg.norm(w21[3:])))
    tolt = 0.05 * max(tmag, fmag * max(_body_radius(case["a"]), _body_radius(case["b"]))) + 1e-12
    tag = "%s-%s" % (case["a"]["factory"], case["b"]["factory"])
    labels.append("intersecting" if inter else "not-intersecting")
    # action - reaction
    if float(np.linalg.norm(w12[:3] + w21[:3])) > tolf:
        fails.append(fail("action-reaction/" + tag, "f12 = %r, f21 = %r" % (w12[:3].tolist(), w21[:3].tolist())))
    # swap
    r2 = call_lib(cf, case["b"], yb, case["a"], ya)
    if isinstance(r2, LibError):
        fails.append(fail("exception/contact_forces-swapped/" + r2.type, repr(r2)))
    else:
        i2, v12, v21 = r2
        v12 = np.asarray(v12, dtype=float)
        v21 = np.asarray(v21, dtype=float)
        if bool(i2) != bool(inter):
            fails.append(fail("flag-swap/" + tag, "intersection %r vs swapped %r" % (inter, i2)))
        df = max(float(np.linalg.norm(v12[:3] - w21[:3])), float(np.linalg.norm(v21[:3] - w12[:3])))
        if df > tolf or float(np.linalg.norm(v12[3:] - w21[3:])) > tolt:
            expl = call_lib(_explained_by_polygons, case, fresh)
            explained = (not isinstance(expl, LibError)) and expl
        else:
            explained = False
        if df > tolf:
            fails.append(fail("swap-force/" + tag,
                              "swapped call: force differs by %.3g (|f| = %.3g, tol %.3g); f12=%r swapped f21=%r" % (
                                  df, fmag, tolf, w12[:3].tolist(), v21[:3].tolist()), rel=df / max(fmag, 1e-300),
                              explained_by_polygons=explained))
        dt = max(float(np.linalg.norm(v12[3:] - w21[3:])), float(np.linalg.norm(v21[3:] - w12[3:])))
        if dt > tolt:
            fails.append(fail("swap-torque/" + tag,
                              "swapped call: torque differs by %.3g (tol %.3g)" % (dt, tolt),
                              explained_by_polygons=explained))
    # rigid motion
    G = np.array(case["g"]["R"])
    r3 = call_lib(cf, moved(case["a"], case["g"]), ya, moved(case["b"], case["g"]), yb)
    if isinstance(r3, LibError):
        fails.append(fail("exception/contact_forces-moved/" + r3.type, repr(r3)))
    elif not _robust_overlap(case):
        labels.append("coarse-overlap:motion-not-asserted")
    else:
        i3, m12, m21 = r3
        m12 = np.asarray(m12, dtype=float)
        if bool(i3) != bool(inter):
            fails.append(fail("flag-motion/" + tag, "intersection %r vs moved %r" % (inter, i3)))
        df = float(np.linalg.norm(m12[:3] - G.dot(w12[:3])))
        if df > tolf:
            expl = call_lib(_explained_by_polygons, case, fresh, "motion")
            fails.append(fail("motion-force/" + tag,
                              "moved scene: force differs from G f by %.3g (|f| = %.3g, tol %.3g)" % (df, fmag, tolf),
                              rel=df / max(fmag, 1e-300),
                              explained_by_polygons=(not isinstance(expl, LibError)) and expl))
    # repeat / interleave on the same objects
    def history():
        b1, b2, b3 = fresh(case["a"], ya), fresh(case["b"], yb), fresh(case["c"], 1.0)
        first = contact_forces(b1, b2)
        again = contact_forces(b1, b2)
        contact_forces(b1, b3)
        third = contact_forces(b1, b2)
        return first, again, third
    h = call_lib(history)
    if isinstance(h, LibError):
        fails.append(fail("exception/history/" + h.type, repr(h)))
    else:
        first, again, third = h
        for name, other in (("repeat", again), ("interleave", third)):
            if bool(other[0]) != bool(first[0]):
                fails.append(fail("flag-%s/%s" % (name, tag), "intersection changed on %s" % name))
            df = float(np.linalg.norm(np.asarray(other[1])[:3] - np.asarray(first[1])[:3]))
            dt = float(np.linalg.norm(np.asarray(other[1])[3:] - np.asarray(first[1])[3:]))
            if df > tolf or dt > tolt:
                fails.append(fail("%s-differs/%s" % (name, tag),
                                  "%s: force differs by %.3g, torque by %.3g" % (name, df, dt)))
        if float(np.linalg.norm(np.asarray(first[1])[:3] - w12[:3])) > tolf:
            fails.append(fail("fresh-differs/" + tag, "same call on fresh bodies differs"))
    # return_details=True must not change the wrenches
    rd = call_lib(lambda: contact_forces(fresh(case["a"], ya), fresh(case["b"], yb), return_details=True))
    if isinstance(rd, LibError):
        fails.append(fail("exception/contact_forces-details/" + rd.type, repr(rd)))
    else:
        dfd = float(np.linalg.norm(np.asarray(rd[1])[:3] - w12[:3]))
        dtd = float(np.linalg.norm(np.asarray(rd[1])[3:] - w12[3:]))
        if bool(rd[0]) != bool(inter) or dfd > tolf or dtd > tolt:
            fails.append(fail("details-differ/" + tag,
                              "return_details=True changes the result: force by %.3g, torque by %.3g" % (dfd, dtd)))

    # broad phase on REUSED bodies: b1 against b2, then b3, then b2 - the same
    # history once with trees and once brute force (identical re-expression
    # sequence, hence bitwise identical vertices)
    def bp_history(use_tree):
        b1, b2, b3 = fresh(case["a"], ya), fresh(case["b"], yb), fresh(case["c"], 1.0)
        out = []
        for other in (b2, b3, b2):
            cs = find_contact_surface(b1, other, use_aabb_trees=use_tree)
            out.append(set(zip([int(i) for i in cs.intersecting_tetrahedra1],
                               [int(j) for j in cs.intersecting_tetrahedra2])))
        return out
    th = call_lib(bp_history, True)
    tb = call_lib(bp_history, False)
    if isinstance(th, LibError):
        fails.append(fail("exception/tree-history/" + th.type, repr(th)))
    elif not isinstance(tb, LibError):
        for step, (got, exp) in enumerate(zip(th, tb)):
            if got != exp:
                fails.append(fail("broad-phase-history/" + tag,
                                  "reused bodies, call %d: tree-based broad phase %d pairs, brute force %d, symmetric difference %d" % (
                                      step, len(got), len(exp), len(got ^ exp)), step=step))
                break

    # tree-based vs brute-force broad phase
    def pairs(use_tree):
        cs = find_contact_surface(fresh(case["a"], ya), fresh(case["b"], yb), use_aabb_trees=use_tree)
        return set(zip([int(i) for i in cs.intersecting_tetrahedra1],
                       [int(j) for j in cs.intersecting_tetrahedra2]))
    p0 = call_lib(pairs, False)
    p1 = call_lib(pairs, True)
    if isinstance(p0, LibError):
        fails.append(fail("exception/find_contact_surface/" + p0.type, repr(p0)))
    elif isinstance(p1, LibError):
        fails.append(fail("exception/find_contact_surface-trees/" + p1.type, repr(p1)))
    elif p0 != p1:
        fails.append(fail("broad-phase-differs/" + tag,
                          "tree-based broad phase: %d pairs, brute force: %d pairs, symmetric difference %d" % (
                              len(p1), len(p0), len(p0 ^ p1))))
    from ..gen.atoms import rotation_class
    nt = bool(inter) and rotation_class(case["b"]["R"]) in ("general", "near-aligned")
    return fails, {"labels": labels, "nontrivial": bool(nt)}


def _explained_by_polygons(case, fresh, mode="swap"):
    """Is the whole discrepancy between the base call and the swapped (or
    rigidly moved) call carried by tetrahedron pairs whose contact polygon
    differs between the two calls (all other pairs agreeing to rounding)?"""
    from distance3d.hydroelastic_contact import find_contact_surface
    ya, yb = case["ym"]
    G = np.array(case["g"]["R"])
    per = {}
    for variant in ("base", "other"):
        if variant == "base":
            A, B, y1, y2 = case["a"], case["b"], ya, yb
        elif mode == "swap":
            A, B, y1, y2 = case["b"], case["a"], yb, ya
        else:
            A, B, y1, y2 = moved(case["a"], case["g"]), moved(case["b"], case["g"]), ya, yb
        cs = find_contact_surface(fresh(A, y1), fresh(B, y2))
        R = np.asarray(cs.frame2world)[:3, :3]
        d = {}
        for k in range(len(cs.intersecting_tetrahedra1)):
            i, j = int(cs.intersecting_tetrahedra1[k]), int(cs.intersecting_tetrahedra2[k])
            key = (j, i) if (variant == "other" and mode == "swap") else (i, j)
            fw = R.dot(np.asarray(cs.contact_forces[k]))
            if variant == "other":
                fw = -fw if mode == "swap" else G.T.dot(fw)
            d[key] = (float(cs.contact_areas[k]), fw)
        per[variant] = d
    ka, kb = set(per["base"]), set(per["other"])
    stable = [k for k in ka & kb
              if abs(per["base"][k][0] - per["other"][k][0]) <= 1e-7 * max(per["base"][k][0], 1e-300)]
    if len(stable) == len(ka | kb):
        return False
    fa = sum((per["base"][k][1] for k in stable), np.zeros(3))
    fb = sum((per["other"][k][1] for k in stable), np.zeros(3))
    tot = max(float(np.linalg.norm(fa)), 1e-300)
    return bool(float(np.linalg.norm(fa - fb)) <= 1e-5 * tot)


def match_known(f, case, known):
    """C16-K1 (root cause C15-K1): when the relative rotation of the two
    bodies is a signed permutation, tetrahedron faces of both meshes are
    parallel, contact-polygon vertices are degenerate and are kept or dropped
    depending on rounding, so swapped / moved / re-expressed calls see
    different polygons."""
    ids = {k["id"] for k in known}
    clause = f["bucket"].split("/")[0]
    if "C16-K1" in ids and clause in ("swap-force", "swap-torque", "motion-force", "flag-swap",
                                      "flag-motion", "repeat-differs", "interleave-differs",
                                      "action-reaction", "fresh-differs", "details-differ"):
        Rrel = np.array(case["a"]["R"]).T.dot(np.array(case["b"]["R"]))
        if float(np.max(np.abs(Rrel))) >= 1.0 - 1e-9:
            return "C16-K1"
    if "C16-K2" in ids and clause in ("swap-force", "swap-torque", "motion-force") and \
            f.get("data", {}).get("explained_by_polygons"):
        return "C16-K2"
    return None
