"""C17 - tetrahedral mesh factories partition the shape with valid potentials."""
import math

import numpy as np
from hypothesis import strategies as st

from ..common import fail, call_lib, LibError, finite
from ..gen import atoms
from ..ref.shapes import ref

RULE = ("Hypothesis per factory (sphere, ellipsoid, cube, box, cylinder, "
        "capsule): sizes log-uniform in [1e-2,1e2] incl. equal sides, ratios "
        "to 1e4, the three cylinder classes incl. exactly l = 2r and l = "
        "2r(1 +- 1e-12); subdivision orders 0-3 (thorough: 0-4); resolution "
        "hints 2*pi*r/3 .. 2*pi*r/48. Oracle: |volume| of every tetrahedron > "
        "0 (determinant); sum = qhull volume of the vertices (rel 1e-9) and = "
        "product of sizes for box/cube; 150 generated points inside the hull "
        "lie in exactly one tetrahedron (points within 1e-9 of a face "
        "skipped); vertices inside the analytic shape; boundary vertices have "
        "potential 0, others the inradius; aabb/volume/centre-of-mass helpers "
        "equal loop recomputation; RigidBody.make_* returns the same arrays. "
        "Non-trivial: a class boundary (equal sides, medium cylinder) or "
        "order >= 2 or >= 50 tetrahedra.")
ASSUMPTIONS = ["tolerance 1e-9*L, L = max(1, size)"]
FACTORIES = ["sphere", "ellipsoid", "cube", "box", "cylinder", "capsule"]
N = {"quick": 40, "thorough": 1200}


def cells(tier):
    return [{"name": f, "factory": f, "n": N[tier], "max_order": 3 if tier == "quick" else 4,
             "cost": N[tier] * (20 if f in ("sphere", "ellipsoid") else 5)} for f in FACTORIES]


@st.composite
def _case(draw, factory, max_order):
    sz = atoms.sizes(1e-2, 1e2)
    c = {"factory": factory}
    if factory == "sphere":
        c["radius"] = draw(sz)
        c["order"] = draw(st.integers(0, max_order))
    elif factory == "ellipsoid":
        r0 = draw(sz)
        mode = draw(st.sampled_from(["free", "sphere-like", "spheroid"]))
        c["radii"] = [r0, draw(sz), draw(sz)] if mode == "free" else \
            ([r0, r0, r0] if mode == "sphere-like" else [r0, r0, draw(sz)])
        c["order"] = draw(st.integers(0, max_order))
    elif factory == "cube":
        c["size"] = draw(sz)
    elif factory == "box":
        a = draw(sz)
        mode = draw(st.sampled_from(["free", "cube", "two-equal-min", "two-equal-max", "nearly-equal"]))
        if mode == "free":
            s = [a, draw(sz), draw(sz)]
        elif mode == "cube":
            s = [a, a, a]
        elif mode == "two-equal-min":
            s = [a, a, min(a * draw(st.sampled_from([1.5, 2.0, 10.0])), 100.0)]
        elif mode == "two-equal-max":
            s = [a, a, max(a / draw(st.sampled_from([1.5, 2.0, 10.0])), 1e-2)]
        else:
            s = [a, a * (1 + draw(st.sampled_from([1e-15, 1e-12, 1e-9, -1e-12]))), draw(sz)]
        perm = draw(st.permutations([0, 1, 2]))
        c["size"] = [s[i] for i in perm]
    else:
        r = draw(atoms.sizes(1e-2, 50.0))
        c["radius"] = r
        key = "length" if factory == "cylinder" else "height"
        cls = draw(st.sampled_from(["long", "medium", "short", "medium+", "medium-", "free"]))
        if cls == "medium":
            c[key] = 2 * r
        elif cls == "medium+":
            c[key] = 2 * r * (1 + draw(st.sampled_from([1e-12, 1e-9, 1e-15])))
        elif cls == "medium-":
            c[key] = 2 * r * (1 - draw(st.sampled_from([1e-12, 1e-9, 1e-15])))
        elif cls == "long":
            c[key] = min(2 * r * draw(st.sampled_from([1.5, 3.0, 10.0])), 100.0)
        elif cls == "short":
            c[key] = max(2 * r / draw(st.sampled_from([1.5, 3.0, 10.0])), 1e-2)
        else:
            c[key] = draw(sz)
        c["cls"] = cls
        c["hint_div"] = draw(st.sampled_from([3, 4, 6, 8, 12, 16, 24, 48]))
    c["pts"] = draw(st.integers(0, 2 ** 20))
    return c


def strategy(cell):
    return _case(cell["factory"], cell.get("max_order", 3))


def call_factory(c):
    from distance3d.hydroelastic_contact import _tetra_mesh_creation as M
    f = c["factory"]
    if f == "sphere":
        return M.make_tetrahedral_sphere(c["radius"], c["order"])
    if f == "ellipsoid":
        return M.make_tetrahedral_ellipsoid(np.array(c["radii"], dtype=float), c["order"])
    if f == "cube":
        return M.make_tetrahedral_cube(c["size"])
    if f == "box":
        return M.make_tetrahedral_box(np.array(c["size"], dtype=float))
    hint = 2 * math.pi * c["radius"] / c["hint_div"]
    if f == "cylinder":
        return M.make_tetrahedral_cylinder(c["radius"], c["length"], hint)
    return M.make_tetrahedral_capsule(c["radius"], c["height"], hint)


def analytic(c):
    """(reference shape, inradius)"""
    I = np.eye(3).tolist()
    f = c["factory"]
    if f == "sphere":
        return ref({"kind": "sphere", "p": [0, 0, 0], "radius": c["radius"]}), c["radius"]
    if f == "ellipsoid":
        return ref({"kind": "ellipsoid", "R": I, "p": [0, 0, 0], "radii": c["radii"]}), min(c["radii"])
    if f == "cube":
        return ref({"kind": "box", "R": I, "p": [0, 0, 0], "size": [c["size"]] * 3}), c["size"] / 2
    if f == "box":
        return ref({"kind": "box", "R": I, "p": [0, 0, 0], "size": c["size"]}), min(c["size"]) / 2
    if f == "cylinder":
        return ref({"kind": "cylinder", "R": I, "p": [0, 0, 0], "radius": c["radius"],
                    "length": c["length"]}), min(c["radius"], c["length"] / 2)
    return ref({"kind": "capsule", "R": I, "p": [0, 0, 0], "radius": c["radius"],
                "height": c["height"]}), c["radius"]


def _exact_det_sign(tet):
    from fractions import Fraction
    p = [[Fraction(float(x)) for x in row] for row in tet]
    a = [[p[i][k] - p[0][k] for k in range(3)] for i in (1, 2, 3)]
    d = (a[0][0] * (a[1][1] * a[2][2] - a[1][2] * a[2][1])
         - a[0][1] * (a[1][0] * a[2][2] - a[1][2] * a[2][0])
         + a[0][2] * (a[1][0] * a[2][1] - a[1][1] * a[2][0]))
    return 0.0 if d == 0 else (1.0 if d > 0 else -1.0)


def check_case(c, cell):
    from distance3d.hydroelastic_contact import _mesh_processing as MP
    f = c["factory"]
    labels = [f]
    r = call_lib(call_factory, c)
    if isinstance(r, LibError):
        return [fail("exception/%s/%s" % (f, r.type), repr(r))], {"labels": labels, "nontrivial": True}
    V, T, pot = (np.asarray(r[0], dtype=float), np.asarray(r[1]), np.asarray(r[2], dtype=float))
    S, inr = analytic(c)
    L = max(1.0, S.feature_size())
    tol = 1e-9 * L
    fails = []
    if not finite(V, pot) or T.ndim != 2 or T.shape[1] != 4 or T.min() < 0 or T.max() >= len(V) \
            or len(pot) != len(V):
        return [fail("malformed/" + f, "V %r T %r pot %r" % (V.shape, T.shape, pot.shape))], {"labels": labels, "nontrivial": True}
    P = V[T]                                     # (n,4,3)
    E = P[:, 1:] - P[:, :1]
    vol = np.linalg.det(E) / 6.0
    edge = np.linalg.norm(P[:, :, None, :] - P[:, None, :, :], axis=3).max(axis=(1, 2))
    had = np.prod(np.linalg.norm(E, axis=2), axis=1)
    # exact sign of the determinant (rationals) where the float value is not
    # clearly away from rounding noise
    sign = np.sign(vol)
    for i in np.nonzero(np.abs(vol) * 6.0 <= 1e-10 * had)[0]:
        sign[i] = _exact_det_sign(P[i])
    zero = sign == 0
    bad = np.nonzero(zero)[0]
    if len(bad):
        fails.append(fail("zero-volume/" + f, "%d of %d tetrahedra have exactly zero volume (first %d: %r)" % (
            len(bad), len(T), bad[0], T[bad[0]].tolist())))
    major = 1.0 if (sign > 0).sum() >= (sign < 0).sum() else -1.0
    inv = np.nonzero((sign != 0) & (sign != major))[0]
    if len(inv):
        fails.append(fail("inverted/" + f, "%d of %d tetrahedra are inverted relative to the others (first %d: %r)" % (
            len(inv), len(T), inv[0], T[inv[0]].tolist())))
    from scipy.spatial import ConvexHull
    hull = ConvexHull(V)
    tot = float(np.abs(vol).sum())
    if abs(tot - hull.volume) > 1e-9 * hull.volume:
        fails.append(fail("volume-sum/" + f, "sum of |volumes| %.12g != hull volume %.12g" % (tot, hull.volume)))
    if f in ("cube", "box"):
        exact = float(np.prod(c["size"])) if f == "box" else c["size"] ** 3
        if abs(tot - exact) > 1e-9 * exact:
            fails.append(fail("volume-exact/" + f, "sum of volumes %.12g != %.12g" % (tot, exact)))
    # partition test with generated interior points; slivers (volume below
    # 1e-9 of edge^3) are not used to place points and distances to face
    # planes (not barycentric values) decide ambiguity
    good = np.abs(vol) > 1e-9 * edge ** 3
    gi = np.nonzero(good)[0]
    if len(gi):
        rng = np.random.RandomState(c["pts"])
        w = rng.dirichlet(np.ones(4), size=150)
        ti = gi[rng.randint(0, len(gi), size=150)]
        X = np.einsum("ij,ijk->ik", w, P[ti])
        Xh = np.hstack([X, np.ones((len(X), 1))])
        nz = ~zero
        A = np.concatenate([np.transpose(P[nz], (0, 2, 1)), np.ones((int(nz.sum()), 1, 4))], axis=1)
        Ainv = np.linalg.inv(A)                          # rows: barycentric functionals
        B = np.einsum("nij,pj->pni", Ainv, Xh)           # (points, tets, 4)
        h = 1.0 / np.maximum(np.linalg.norm(Ainv[:, :, :3], axis=2), 1e-300)   # heights (tets,4)
        D = B * h[None, :, :]                            # signed distances to face planes
        dmin = D.min(axis=2)
        inside = dmin > tol
        near = np.abs(dmin) <= tol
        cnt = inside.sum(axis=1)
        amb = near.any(axis=1)
        multi = np.nonzero((cnt > 1) & ~amb)[0]
        none = np.nonzero((cnt == 0) & ~amb)[0]
        if len(multi):
            fails.append(fail("overlap/" + f, "point %r lies in %d tetrahedra" % (X[multi[0]].tolist(), int(cnt[multi[0]]))))
        if len(none):
            fails.append(fail("gap/" + f, "point %r (inside the hull) lies in no tetrahedron" % (X[none[0]].tolist(),)))
    # vertices vs analytic shape, potentials
    sd = np.array([S.sdist(v) for v in V])
    out = np.nonzero(sd[:, 0] > tol)[0]
    if len(out):
        fails.append(fail("vertex-outside/" + f, "vertex %d is %.3g outside the analytic shape" % (out[0], sd[out[0], 0])))
    boundary = np.abs(sd[:, 0]) <= tol
    wrongb = np.nonzero(boundary & (np.abs(pot) > tol))[0]
    if len(wrongb):
        fails.append(fail("potential-boundary/" + f, "boundary vertex %d has potential %.6g" % (wrongb[0], pot[wrongb[0]])))
    interior = ~boundary & (sd[:, 1] < -tol)
    wrongi = np.nonzero(interior & (np.abs(pot - inr) > 1e-9 * max(1.0, inr)))[0]
    if len(wrongi):
        fails.append(fail("potential-medial/" + f, "interior vertex %d has potential %.9g, inradius %.9g" % (
            wrongi[0], pot[wrongi[0]], inr)))
    # helpers
    ab = call_lib(MP.tetrahedral_mesh_aabbs, P)
    if isinstance(ab, LibError):
        fails.append(fail("exception/aabbs/" + ab.type, repr(ab)))
    else:
        ref_ab = np.stack([P.min(axis=1), P.max(axis=1)], axis=2)
        if np.asarray(ab).shape != ref_ab.shape or np.max(np.abs(np.asarray(ab) - ref_ab)) > 0:
            fails.append(fail("helper-aabbs/" + f, "tetrahedral_mesh_aabbs differs from direct min/max"))
    vv = call_lib(MP.tetrahedral_mesh_volumes, P)
    if isinstance(vv, LibError):
        fails.append(fail("exception/volumes/" + vv.type, repr(vv)))
    elif np.max(np.abs(np.asarray(vv) - np.abs(vol))) > 1e-9 * max(float(np.abs(vol).max()), 1e-300):
        fails.append(fail("helper-volumes/" + f, "tetrahedral_mesh_volumes differs from determinants"))
    com = call_lib(MP.center_of_mass_tetrahedral_mesh, P)
    if isinstance(com, LibError):
        fails.append(fail("exception/com/" + com.type, repr(com)))
    else:
        com_ref = (np.abs(vol)[:, None] * P.mean(axis=1)).sum(axis=0) / np.abs(vol).sum()
        if np.max(np.abs(np.asarray(com) - com_ref)) > 1e-9 * L:
            fails.append(fail("helper-com/" + f, "centre of mass %r vs %r" % (np.asarray(com).tolist(), com_ref.tolist())))
    # RigidBody.make_* returns the same arrays
    from .c04 import make_body
    bc = dict(c, R=np.eye(3).tolist(), p=[0.0, 0.0, 0.0])
    if f in ("sphere", "ellipsoid") and c["order"] > 2:
        bc = None
    if bc is not None:
        body = call_lib(make_body, bc)
        if isinstance(body, LibError):
            fails.append(fail("exception/RigidBody/" + body.type, repr(body)))
        elif (np.asarray(body.vertices_).shape != V.shape or
              np.max(np.abs(np.asarray(body.vertices_) - V)) > 0 or
              not np.array_equal(np.asarray(body.tetrahedra_), T) or
              np.max(np.abs(np.asarray(body.potentials_) - pot)) > 0):
            fails.append(fail("rigidbody-differs/" + f, "RigidBody.make_%s arrays differ from the factory" % f))
    cls = c.get("cls")
    if cls:
        labels.append("cyl:" + cls)
    if "order" in c:
        labels.append("order:%d" % c["order"])
    nt = len(T) >= 50 or c.get("order", 0) >= 2 or (cls or "").startswith("medium") or \
        (f == "box" and len(set(c["size"])) < 3) or f == "cube"
    return fails, {"labels": labels, "nontrivial": bool(nt), "maxima": {"max_tetrahedra": int(len(T))}}


def match_known(f, case, known):
    return None
