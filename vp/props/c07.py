"""C07 - EPA returns the minimum translation vector when success=True."""
import itertools

import numpy as np

from ..common import fail, call_lib, LibError, finite
from ..gen import scenes as S
from ..gen.colliders import KINDS, POLYTOPES, build, translate
from ..ref.shapes import ref
from ..ref.refdist import refdist
from ..ref.penetration import pd_bounds, extent
from ..ref.polytope import is_polytope
from .narrow import pair_tag, exc_fail

RULE = ("Hypothesis overlapping scenes (deep incl. shallow depth fractions "
        "down to 1e-6, identical, centre-coincident, aligned lattice) for the "
        "9 polytope pairs {box, mesh, hull}^2 (exact oracle: qhull facets of "
        "the Minkowski difference) and 36 pairs with a smooth partner (bound "
        "oracle). Protocol of the examples: d,a,b,S = gjk.gjk(A,B); if d == 0: "
        "mtv, faces, ok = epa(S, A, B). Checked only when ok: | |mtv| - PD | "
        "<= 1e-6*L (polytopes) or |mtv| <= sampled upper bound and >= ball "
        "lower bound (smooth); B translated by mtv neither apart (certified "
        "separating plane) nor still overlapping (exact PD / ball witness) by "
        "more than 1e-6*L. For polytope pairs an AssertionError or ok=False is "
        "a violation. Non-trivial: PD >= 10*tol.")
ASSUMPTIONS = ["tolerance 1e-6*L", "smooth pairs: only bounds are asserted; capacity AssertionError accepted"]
N = {"quick": 40, "thorough": 1500}
SMOOTH_PARTNERS = ["sphere", "ellipsoid", "capsule", "cylinder", "cone"]
SHALLOW = [1.0, 0.5, 0.1, 1e-2, 1e-3, 1e-4, 1e-6]


def cells(tier):
    out = []
    for a in POLYTOPES:
        for b in POLYTOPES:
            out.append({"name": "poly-%s-%s" % (a, b), "A": a, "B": b, "n": N[tier], "poly": True})
    for a in SMOOTH_PARTNERS:
        for b in ["box", "hull"] + SMOOTH_PARTNERS[:2]:
            out.append({"name": "smooth-%s-%s" % (a, b), "A": a, "B": b,
                        "n": max(5, N[tier] // 2), "poly": False})
    return out


def strategy(cell):
    return S.scenes(cell["A"], cell["B"], families=["deep", "deep", "aligned"],
                    margin=False, depth_fractions=SHALLOW, max_vertices=36)


def simplex_class(simplex, L):
    """Classify the simplex GJK hands to EPA: 'tetra+'/'tetra-' (proper
    tetrahedron that encloses the origin, by orientation sign) or
    'degenerate' / 'origin-outside' / 'origin-on-boundary' / 'nonfinite'."""
    if not np.all(np.isfinite(simplex)):
        return "nonfinite", 0.0
    M = simplex[1:] - simplex[0]
    det = float(np.linalg.det(M))
    scale = max(float(np.max(np.abs(simplex))), 1e-300)
    if abs(det) <= 1e-12 * scale ** 3:
        return "degenerate", det
    lam = np.linalg.solve(np.vstack([simplex.T, np.ones(4)]), np.array([0, 0, 0, 1.0]))
    if lam.min() < -1e-9:
        return "origin-outside", det
    if lam.min() <= 1e-9:
        return "origin-on-boundary", det
    return ("tetra+" if det > 0 else "tetra-"), det


def check_case(case, cell):
    from distance3d import gjk
    from distance3d.epa import epa
    tr = S.truth(case)
    L = tr["L"]
    tol = 1e-6 * L
    tag = pair_tag(case)
    labels = list(case.get("labels", ()))
    Aref, Bref = tr["A"], tr["B"]
    poly = is_polytope(Aref) and is_polytope(Bref)
    if tr["hi"] > 0.0:
        return [], {"labels": labels + ["separated"], "nontrivial": False}
    A = build(case["A"])
    B = build(case["B"])
    g = call_lib(gjk.gjk, A, B)
    if isinstance(g, LibError):
        return [exc_fail(g, "gjk")], {"labels": labels, "nontrivial": True}
    if g[0] != 0.0:
        return [], {"labels": labels + ["gjk-says-separated"], "nontrivial": False,
                    "counters": {"gjk_nonzero_on_overlap": 1}}
    pd_lo, pd_hi, exact = pd_bounds(Aref, Bref)
    if not (Aref.flat or Bref.flat):
        pd_lo = max(pd_lo, 2.0 * tr["overlap_depth"])
    labels.append("pd-exact" if exact else "pd-bounds")
    simplex = np.array(g[3], dtype=float)
    sclass, sdet = simplex_class(simplex, L)
    if sclass in ("tetra+", "tetra-"):
        # rows GJK did not write are uninitialised memory and can form a
        # proper tetrahedron by accident: each row must be a point of A - B
        for w in simplex:
            if refdist(Aref, ref(translate(case["B"], w)), scale=L)["lower"] > tol:
                sclass = "stale-row"
                break
    labels.append("simplex:" + sclass)
    r = call_lib(epa, simplex, A, B)
    fails = []
    nt = pd_lo >= 10 * tol
    if isinstance(r, LibError):
        if poly or r.type != "AssertionError":
            fails.append(fail("epa-exception/%s/%s" % (r.type, tag),
                              "epa raised %r (PD=%.6g, simplex %s)" % (r, pd_lo, sclass), pd=pd_lo, simplex=sclass))
        else:
            labels.append("capacity-assert-smooth")
        return fails, {"labels": labels, "nontrivial": bool(nt)}
    mtv, faces, ok = r
    if not ok:
        labels.append("not-converged")
        if poly:
            fails.append(fail("epa-no-success/" + tag,
                              "epa returned success=False for a polytope pair (PD=%.6g, simplex %s)" % (pd_lo, sclass), pd=pd_lo, simplex=sclass))
        return fails, {"labels": labels, "nontrivial": bool(nt)}
    if not finite(mtv):
        return [fail("nonfinite/" + tag, "mtv=%r" % (mtv,))], {"labels": labels, "nontrivial": True}
    mtv = np.asarray(mtv, dtype=float)
    m = float(np.linalg.norm(mtv))
    data = dict(mtv=mtv.tolist(), pd_lo=pd_lo, pd_hi=pd_hi, exact=exact, simplex=sclass)
    if m > pd_hi + tol:
        fails.append(fail("mtv-too-long/" + tag,
                          "|mtv| = %.9g but a shorter translation separates: %.9g (%s, tol %.3g)" % (
                              m, pd_hi, "exact" if exact else "sampled direction", tol), **data))
    if m < pd_lo - tol:
        fails.append(fail("mtv-too-short/" + tag,
                          "|mtv| = %.9g but penetration depth >= %.9g (%s, tol %.3g)" % (
                              m, pd_lo, "exact" if exact else "ball witness", tol), **data))
    # translating B by mtv: touching contact
    B2 = ref(translate(case["B"], mtv))
    rd = refdist(Aref, B2, scale=L)
    if rd["lower"] > tol:
        fails.append(fail("apart-after-mtv/" + tag,
                          "after translating B by mtv a gap of >= %.6g remains (tol %.3g)" % (rd["lower"], tol), **data))
    rlo, rhi, rex = pd_bounds(Aref, B2, dirs=[mtv] if m > 0 else ())
    if rlo > tol:
        fails.append(fail("overlap-after-mtv/" + tag,
                          "after translating B by mtv the pair still penetrates by >= %.6g (tol %.3g)" % (rlo, tol), **data))
    # any orientation of the simplex: the other winding must give the same depth
    if sclass in ("tetra+", "tetra-"):
        r2 = call_lib(epa, np.ascontiguousarray(simplex[[1, 0, 2, 3]]), build(case["A"]), build(case["B"]))
        labels.append("winding-swapped")
        if isinstance(r2, LibError):
            if poly or r2.type != "AssertionError":
                fails.append(fail("epa-exception-swapped-winding/%s/%s" % (r2.type, tag),
                                  "epa raised %r for the same tetrahedron with rows 0,1 swapped" % r2, simplex=sclass))
        elif r2[2] and finite(r2[0]):
            m2 = float(np.linalg.norm(r2[0]))
            if abs(m2 - m) > 2 * tol and (m2 > pd_hi + tol or m2 < pd_lo - tol):
                fails.append(fail("mtv-winding-dependent/" + tag,
                                  "|mtv| = %.9g for the returned winding, %.9g for the swapped one (PD in [%.9g, %.9g])" % (
                                      m, m2, pd_lo, pd_hi), simplex=sclass))
    return fails, {"labels": labels, "nontrivial": bool(nt)}


BAD_SIMPLEX = ("degenerate", "origin-on-boundary", "origin-outside", "nonfinite", "stale-row")


def match_known(f, case, known):
    """C07-K1: GJK hands EPA an array that is not a tetrahedron strictly
    enclosing the origin (it stopped with fewer than 4 simplex points, the
    remaining rows are stale, or the origin lies on the boundary); EPA has no
    way to recover. Matched on the class of the handed-over simplex, computed
    by the harness from the array itself."""
    ids = {k["id"] for k in known}
    if "C07-K1" in ids and f.get("data", {}).get("simplex") in BAD_SIMPLEX:
        return "C07-K1"
    if "C07-K3" in ids and f["bucket"].split("/")[0] in ("mtv-too-long", "apart-after-mtv") and \
            f.get("data", {}).get("simplex") in ("tetra+", "tetra-"):
        A, B = ref(case["A"]), ref(case["B"])
        if is_polytope(A) and is_polytope(B):
            ratio = max(A.feature_size(), B.feature_size()) / max(min(A.feature_size(), B.feature_size()), 1e-300)
            near_parallel = False
            if "R" in case["A"] and "R" in case["B"]:
                from ..gen.atoms import is_signed_perm
                Rrel = np.array(case["A"]["R"]).T.dot(np.array(case["B"]["R"]))
                near_parallel = is_signed_perm(Rrel, 1e-2) and not is_signed_perm(Rrel, 1e-12)
            d = f.get("data", {})
            m = float(np.linalg.norm(d.get("mtv", [0, 0, 0])))
            gross = m - d.get("pd_hi", m) >= 1e-3 * max(d.get("pd_hi", 0.0), 1e-300)
            if (ratio >= 20.0 or near_parallel) and gross:
                return "C07-K3"
    if "C07-K2" in ids and f["bucket"].startswith("epa-exception/AssertionError") or \
            ("C07-K2" in ids and f["bucket"].startswith("epa-exception-swapped-winding/AssertionError")):
        if f.get("data", {}).get("simplex") in ("tetra+", "tetra-") and capacity_only(case):
            return "C07-K2"
    return None


def capacity_only(case, swapped=None):
    """The default capacity (max_faces=64, max_loose_edges=32, max_iter=64) is
    the only obstacle: the same protocol with a generous capacity succeeds on
    a proper tetrahedron (both windings)."""
    from distance3d import gjk
    from distance3d.epa import epa
    A, B = build(case["A"]), build(case["B"])
    g = call_lib(gjk.gjk, A, B)
    if isinstance(g, LibError) or g[0] != 0.0:
        return False
    W = np.array(g[3], dtype=float)
    L = S.truth(case)["L"]
    if not simplex_class(W, L)[0].startswith("tetra"):
        return False
    for rows in ([0, 1, 2, 3], [1, 0, 2, 3]):
        r = call_lib(epa, np.ascontiguousarray(W[rows]), build(case["A"]), build(case["B"]),
                     max_iter=4096, max_loose_edges=2048, max_faces=8192)
        if isinstance(r, LibError) or not r[2] or not finite(r[0]):
            return False
    return True
