"""C02 - boolean narrow-phase tests never miss a clear overlap nor report a
clear gap; all agree with each other and with the distance query."""
import numpy as np

from ..common import fail, call_lib, LibError
from ..gen import scenes as S
from ..gen.colliders import KINDS, build
from .narrow import boolean_tests, pair_tag, exc_fail

RULE = ("Hypothesis scenes over all 100 ordered collider-kind pairs (Margin "
        "prob 1/4): gap scenes with constructed separating plane (gap "
        "1.05e-3*L .. 3*L), deep scenes with a common point of guaranteed "
        "inside depth, free scenes decided by the certified reference GJK. "
        "Only clear scenes are asserted (gap >= delta -> all tests False; "
        "common point >= delta inside both -> all True; delta = 1e-3*L); "
        "flat-solid scenes (depth taken in the solid partner) are bucketed "
        "separately as agreement/flat. Tests: jolt, libccd, mpr, nesterov, "
        "nesterov-primitives on the 25 primitive pairs (the five tests the "
        "property names, default arguments), and "
        "gjk_distance_jolt d==0 / d>0. Non-trivial: gap or depth within "
        "[delta, 100*delta], or identical/centre-coincident/shared-rotation "
        "scenes. Distinct by hash of the scene spec.")
ASSUMPTIONS = ["delta = 1e-3*L with L recomputed from the final scene",
               "scenes inside the band (neither clause certified) are counted undecided, never asserted"]
N = {"quick": 20, "thorough": 800}
CLEAR_GAPS = [1.05e-3, 2e-3, 1e-2, 0.1, 1.0, 3.0]
PRIMS = ("sphere", "capsule", "box", "ellipsoid", "cylinder")


def cells(tier):
    out = []
    for a in KINDS:
        for b in KINDS:
            for fam in ("gap", "deep", "free"):
                n = N[tier] if fam != "free" else max(4, N[tier] // 3)
                if a in PRIMS and b in PRIMS and fam != "deep":
                    n *= 5     # the primitives-only test has its own solver copy
                out.append({"name": "%s-%s-%s" % (a, b, fam), "A": a, "B": b,
                            "family": fam, "n": n})
    return out


def strategy(cell):
    kw = {}
    if cell["family"] == "gap":
        kw["gaps"] = CLEAR_GAPS
    return S.scenes(cell["A"], cell["B"], families=[cell["family"]], margin=True, **kw)


def check_case(case, cell):
    from distance3d import gjk
    tr = S.truth(case)
    L = tr["L"]
    delta = 1e-3 * L
    tag = pair_tag(case)
    labels = list(case.get("labels", ()))
    expected = None
    flat = tr["A"].flat or tr["B"].flat
    margin_val = None
    if tr["lo"] >= delta:
        expected = False
        margin_val = tr["lo"] / delta
    elif tr["overlap_depth"] >= delta:
        expected = True
        margin_val = tr["overlap_depth"] / delta
    if expected is None:
        return [], {"labels": labels + ["in-band"], "nontrivial": False, "undecided": 1}
    labels.append("expect:%s" % expected)
    if flat:
        labels.append("flat-partner")
    A = build(case["A"])
    B = build(case["B"])
    fails = []
    clause = "agreement-flat" if (flat and expected) else ("missed-overlap" if expected else "false-collision")
    for name, fn in boolean_tests(case).items():
        r = call_lib(fn, A, B)
        if isinstance(r, LibError):
            fails.append(exc_fail(r, name))
            continue
        if bool(r) != expected:
            fails.append(fail("%s/%s/%s" % (clause, name, tag),
                              "%s answered %r, truth %r (%s %.3g = %.3g*delta, L=%.3g)" % (
                                  name, bool(r), expected,
                                  "depth" if expected else "gap",
                                  tr["overlap_depth"] if expected else tr["lo"],
                                  margin_val, L), test=name))
    r = call_lib(gjk.gjk_distance_jolt, A, B, max_distance_squared=float("inf"))
    if isinstance(r, LibError):
        fails.append(exc_fail(r, "distance"))
    elif (r[0] == 0.0) != expected:
        fails.append(fail("%s/distance/%s" % (clause, tag),
                          "distance query d=%.3g, truth overlap=%r" % (r[0], expected), test="distance"))
    nt = margin_val <= 100.0 or any(l in ("mode:identical", "mode:centre", "mode:shared-rot", "shared-rot")
                                    for l in labels)
    return fails, {"labels": labels, "nontrivial": bool(nt)}


def _mpr_true_on_flat_portal(case):
    """Replays mpr_intersection with the library's own building blocks and
    reports whether the answer True is taken on a degenerate portal: v0..v3
    coplanar (relative volume <= 1e-9), so that the portal normal is
    perpendicular to the origin ray and 'encapsulates the origin' holds
    wherever the origin lies in that plane."""
    from distance3d import mpr as M
    from distance3d.minkowski import support_function
    a, b = build(case["A"]), build(case["B"])
    res, portal = M._discover_portal(a, b, 100)
    if res != M.PortalState.PORTAL_WAS_BUILT:
        return False
    for _ in range(200):
        d = M._portal_direction(portal.v)
        if not np.all(np.isfinite(d)) or M._encapsulates_origin(portal.v[1], d):
            v = np.array(portal.v[:4], dtype=float)
            vol = abs(float(np.linalg.det(v[1:] - v[0])))
            sc = max(float(np.abs(v).max()), 1e-300)
            # four distinct vertices (a portal with a repeated vertex is what
            # the repaired _swap_vertices defect C02-F6 produced)
            distinct = all(float(np.linalg.norm(v[i] - v[j])) > 1e-9 * sc
                           for i in range(4) for j in range(i + 1, 4))
            return distinct and vol <= 1e-9 * sc ** 3
        sp, s1, s2 = support_function(a, b, d)
        if (not M._encapsulates_origin(sp, d)) or M._portal_reach_tolerance(portal.v, sp, d, 0.0001):
            return False
        M._expand_portal(portal.v, portal.v1, portal.v2, sp, s1, s2)
    return False


def match_known(f, case, known):
    """C02-K1: mpr_intersection answers True on a degenerate portal. Seen for
    two flat shapes lying in the same plane (flat Minkowski difference) and
    for scenes that are mirror symmetric about a plane through both centres
    (every portal vertex and the origin ray lie in that plane)."""
    ids = {k["id"] for k in known}
    if "C02-K1" in ids and f["bucket"].startswith("false-collision/mpr/"):
        r = call_lib(_mpr_true_on_flat_portal, case)
        if r is True:
            return "C02-K1"
    return None
