"""C02 - boolean narrow-phase tests never miss a clear overlap nor report a
clear gap; all agree with each other and with the distance query."""
import numpy as np

from ..common import fail, call_lib, LibError
from ..gen import scenes as S
from ..gen.colliders import KINDS, build
from .narrow import boolean_tests, pair_tag, exc_fail

RULE = ("Hypothesis scenes over all 100 ordered collider-kind pairs (Margin "
        "prob 1/4): gap scenes with constructed separating plane (gap "
        "1.05e-3*L .. 3*L), deep scenes with a common point of guaranteed "
        "inside depth, free scenes decided by the certified reference GJK. "
        "Only clear scenes are asserted (gap >= delta -> all tests False; "
        "common point >= delta inside both -> all True; delta = 1e-3*L); "
        "flat-solid scenes (depth taken in the solid partner) are bucketed "
        "separately as agreement/flat. Tests: jolt, libccd, mpr, nesterov, "
        "nesterov-primitives on the 25 primitive pairs (the five tests the "
        "property names, default arguments), and "
        "gjk_distance_jolt d==0 / d>0. Non-trivial: gap or depth within "
        "[delta, 100*delta], or identical/centre-coincident/shared-rotation "
        "scenes. Distinct by hash of the scene spec.")
ASSUMPTIONS = ["delta = 1e-3*L with L recomputed from the final scene",
               "scenes inside the band (neither clause certified) are counted undecided, never asserted"]
N = {"quick": 20, "thorough": 800}
CLEAR_GAPS = [1.05e-3, 2e-3, 1e-2, 0.1, 1.0, 3.0]
PRIMS = ("sphere", "capsule", "box", "ellipsoid", "cylinder")


def cells(tier):
    out = []
    for a in KINDS:
        for b in KINDS:
            for fam in ("gap", "deep", "free"):
                n = N[tier] if fam != "free" else max(4, N[tier] // 3)
                if a in PRIMS and b in PRIMS and fam != "deep":
                    n *= 5     # the primitives-only test has its own solver copy
                out.append({"name": "%s-%s-%s" % (a, b, fam), "A": a, "B": b,
                            "family": fam, "n": n})
    return out


def strategy(cell):
    kw = {}
    if cell["family"] == "gap":
        kw["gaps"] = CLEAR_GAPS
    return S.scenes(cell["A"], cell["B"], families=[cell["family"]], margin=True, **kw)


def check_case(case, cell):
    from distance3d import gjk
    tr = S.truth(case)
    L = tr["L"]
    delta = 1e-3 * L
    tag = pair_tag(case)
    labels = list(case.get("labels", ()))
    expected = None
    flat = tr["A"].flat or tr["B"].flat
    margin_val = None
    if tr["lo"] >= delta:
        expected = False
        margin_val = tr["lo"] / delta
    elif tr["overlap_depth"] >= delta:
        expected = True
        margin_val = tr["overlap_depth"] / delta
    if expected is None:
        return [], {"labels": labels + ["in-band"], "nontrivial": False, "undecided": 1}
    labels.append("expect:%s" % expected)
    if flat:
        labels.append("flat-partner")
    A = build(case["A"])
    B = build(case["B"])
    fails = []
    clause = "agreement-flat" if (flat and expected) else ("missed-overlap" if expected else "false-collision")
    for name, fn in boolean_tests(case).items():
        r = call_lib(fn, A, B)
        if isinstance(r, LibError):
            fails.append(exc_fail(r, name))
            continue
        if bool(r) != expected:
            fails.append(fail("%s/%s/%s" % (clause, name, tag),
                              "%s answered %r, truth %r (%s %.3g = %.3g*delta, L=%.3g)" % (
                                  name, bool(r), expected,
                                  "depth" if expected else "gap",
                                  tr["overlap_depth"] if expected else tr["lo"],
                                  margin_val, L), test=name))
    r = call_lib(gjk.gjk_distance_jolt, A, B, max_distance_squared=float("inf"))
    if isinstance(r, LibError):
        fails.append(exc_fail(r, "distance"))
    elif (r[0] == 0.0) != expected:
        fails.append(fail("%s/distance/%s" % (clause, tag),
                          "distance query d=%.3g, truth overlap=%r" % (r[0], expected), test="distance"))
    nt = margin_val <= 100.0 or any(l in ("mode:identical", "mode:centre", "mode:shared-rot", "shared-rot")
                                    for l in labels)
    return fails, {"labels": labels, "nontrivial": bool(nt)}


def match_known(f, case, known):
    """C02-K1: mpr_intersection on two flat shapes lying in the same plane.
    Their Minkowski difference is flat, the portal normal is perpendicular to
    it and 'portal encapsulates the origin' holds for every in-plane position
    of the origin: separated coplanar pairs are reported as colliding."""
    ids = {k["id"] for k in known}
    if "C02-K1" in ids and f["bucket"].startswith("false-collision/mpr/"):
        tr = S.truth(case)
        A, B = tr["A"], tr["B"]
        if A.flat and B.flat and A.kind in ("disk", "ellipse") and B.kind in ("disk", "ellipse"):
            n = A.R[:, 2]
            if abs(float(n.dot(B.R[:, 2]))) >= 1.0 - 1e-9 and \
                    abs(float(n.dot(B.center() - A.center()))) <= 1e-9 * tr["L"]:
                return "C02-K1"
    return None
