"""C18 - simplex solvers return the minimum-norm point of conv(1..4 points)."""
import itertools
from fractions import Fraction

import math

import numpy as np
from hypothesis import strategies as st

from ..common import fail, call_lib, LibError, finite, Stats, write_replay, fingerprint, fuzz_cells
from ..ref.simplex_exact import exact_min_norm, in_hull_exact
from ..ref.refdist import closest_on_simplex

RULE = ("(1) exhaustive enumeration of all k-point configurations, k=1..4, "
        "with coordinates in {-1,0,1} (27+27^2+27^3+27^4 = 551880; quick tier: "
        "the 1/16 residue class selected by the seed); (2) Hypothesis: "
        "coordinates in {-2..2}, real configurations scale*lattice+noise over "
        "12 orders of magnitude, near-degenerate (collinear/coplanar + 1e-k "
        "noise), duplicates. Both solvers: Jolt get_closest_point_to_origin "
        "and the original GJK's distance_subalgorithm_with_backup_procedure("
        "backup=True) on a SimplexInfo filled through its own API. Oracle: "
        "exact rational brute force over the 15 vertex subsets. Non-trivial: "
        "optimum on a proper face (fewer than k support points), or a "
        "degenerate input (exact rank < k-1), or several optimal subsets.")
ASSUMPTIONS = ["norm compared at 1e-9 relative with an absolute floor of 2e-9*scale (scale = max(1, largest |coordinate|)), subset membership within 1e-9*scale"]
LATTICE = [-1.0, 0.0, 1.0]
COUNTS = [27 ** k for k in (1, 2, 3, 4)]
TOTAL = sum(COUNTS)
NSHARDS = 64
N_HYP = {"quick": 400, "thorough": 12000}


def cells(tier):
    out = [{"name": "lattice-%02d" % i, "direct": True, "shard": i, "cost": 1e6} for i in range(NSHARDS)]
    for v in ("lattice2", "scaled", "degenerate", "duplicates", "near-duplicates", "needle"):
        out.append({"name": "hyp-" + v, "variant": v, "n": N_HYP[tier]})
    if tier == "thorough":
        out += fuzz_cells("simplex", 4, 150000)
    return out


def coverage_extra(tier, results):
    n = sum(r.get("evaluations", 0) for r in results if r.get("cell", "").startswith("lattice-"))
    return {"exhaustive_subdomain": tier == "thorough" and n == TOTAL,
            "lattice_configurations_enumerated": n, "lattice_total": TOTAL}


def config_from_index(idx):
    for k, cnt in zip((1, 2, 3, 4), COUNTS):
        if idx < cnt:
            pts = []
            for _ in range(k):
                p = []
                for _ in range(3):
                    p.append(LATTICE[idx % 3])
                    idx //= 3
                pts.append(p)
            return pts
        idx -= cnt
    raise IndexError


def _coord2():
    return st.integers(-2, 2).map(float)


@st.composite
def _hyp_case(draw, variant):
    k = draw(st.integers(1, 4))
    if variant == "lattice2":
        pts = [[draw(_coord2()) for _ in range(3)] for _ in range(k)]
    elif variant == "scaled":
        e = draw(st.integers(-6, 6))
        noise = draw(st.sampled_from([0.0, 1e-3, 1e-9]))
        f = st.floats(-1, 1, allow_nan=False, width=64)
        pts = [[(draw(_coord2()) + noise * draw(f)) * 10.0 ** (e + draw(st.integers(-3, 3)) * (i == 0))
                for _ in range(3)] for i in range(k)]
    elif variant == "degenerate":
        base = [draw(_coord2()) for _ in range(3)]
        d1 = [draw(_coord2()) for _ in range(3)]
        d2 = [draw(_coord2()) for _ in range(3)]
        eps = draw(st.sampled_from([0.0, 1e-15, 1e-12, 1e-9, 1e-6, 1e-3]))
        f = st.floats(-1, 1, allow_nan=False, width=64)
        mode = draw(st.sampled_from(["collinear", "coplanar"]))
        pts = []
        for _ in range(k):
            a, b = draw(_coord2()), draw(_coord2())
            if mode == "collinear":
                b = 0.0
            pts.append([base[c] + a * d1[c] + b * d2[c] + eps * draw(f) for c in range(3)])
    elif variant == "needle":
        # c = b displaced ALONG the edge a-b by 1e-16..1e-6 plus rounding-level
        # transverse noise: a triangle that is collinear up to rounding and has
        # a nearly repeated vertex (GJK on flat boxes produces these)
        fl = st.floats(-3, 3, allow_nan=False, width=64)
        a0 = [draw(fl) for _ in range(3)]
        b0 = [draw(fl) for _ in range(3)]
        ab = np.array(b0) - np.array(a0)
        if float(np.linalg.norm(ab)) < 1e-3:
            b0 = [a0[0] + 1.0, a0[1], a0[2]]
            ab = np.array([1.0, 0.0, 0.0])
        e = 10.0 ** draw(st.integers(-16, -6)) * draw(st.sampled_from([1.0, -1.0]))
        f = st.floats(-1, 1, allow_nan=False, width=64)
        c0 = (np.array(b0) + e * ab / np.linalg.norm(ab)
              + 1e-16 * max(1.0, float(np.abs(b0).max())) * np.array([draw(f) for _ in range(3)])).tolist()
        pts = [a0, b0, c0]
        if draw(st.booleans()):
            pts.append([draw(fl) for _ in range(3)])
        perm = draw(st.permutations(list(range(len(pts)))))
        pts = [pts[i] for i in perm]
    elif variant == "near-duplicates":
        # a vertex repeated up to a perturbation of 1e-16 .. 1e-6 (what GJK
        # produces when a support point is found again up to rounding)
        base = [[draw(st.floats(-3, 3, allow_nan=False, width=64)) for _ in range(3)] for _ in range(k)]
        f = st.floats(-1, 1, allow_nan=False, width=64)
        pts = []
        for i in range(k):
            if i > 0 and draw(st.booleans()):
                j = draw(st.integers(0, i - 1))
                e = 10.0 ** draw(st.integers(-16, -6))
                pts.append([pts[j][c] + e * draw(f) for c in range(3)])
            else:
                pts.append(base[i])
    else:
        p0 = [draw(st.floats(-2, 2, allow_nan=False, width=64)) for _ in range(3)]
        pts = [list(p0) if draw(st.booleans()) else [draw(_coord2()) for _ in range(3)] for _ in range(k)]
    pts = [[0.0 if abs(x) < 1e-30 else float(x) for x in p] for p in pts]
    return {"points": pts}


def strategy(cell):
    return _hyp_case(cell["variant"])


def run_jolt(points):
    from distance3d.gjk._gjk_jolt import get_closest_point_to_origin
    k = len(points)
    Y = np.full((4, 3), np.nan)
    Y[:k] = np.array(points, dtype=float)
    r = call_lib(get_closest_point_to_origin, Y, k, np.inf)
    return r


def run_original(points):
    from distance3d.gjk._gjk_original import (SimplexInfo, Solution,
                                              distance_subalgorithm_with_backup_procedure)
    s = SimplexInfo()
    for i, p in enumerate(points):
        if i == 0:
            s.set_first_point(i, i, np.array(p, dtype=float))
        else:
            s.add_new_point(i, i, np.array(p, dtype=float))

    def call():
        sol, backup = distance_subalgorithm_with_backup_procedure(s, Solution(), True)
        m = len(s)
        return (np.array(sol.search_direction, dtype=float), float(sol.distance_squared),
                np.array(s.points[:m], dtype=float), np.array(sol.barycentric_coordinates[:m], dtype=float))
    return call_lib(call)


def _in_hull(subset_pts, v, tol):
    P = np.array(subset_pts, dtype=float) - np.asarray(v, dtype=float)
    w, lam = closest_on_simplex(P)
    if float(np.linalg.norm(w)) <= tol:
        return True
    ok, n2 = in_hull_exact(subset_pts, [float(x) for x in v], tol)
    return ok


def check_points(points):
    """Returns (fails, info) for one configuration (both solvers)."""
    k = len(points)
    opt, vopt, optsets = exact_min_norm(points)
    optf = float(opt)
    scale = max(1.0, max(abs(x) for p in points for x in p))
    tolh = 1e-9 * max(scale, 1e-300)
    fails = []
    nsup = min(len(sub) for sub, lam in optsets)
    nontrivial = nsup < k or len(optsets) > 1

    def norm_ok(n2):
        # 1e-9 relative on the norm, with an absolute floor of 2e-9 * scale on
        # the norm (a relative bound on a norm of 1e-7 at coordinates of 12
        # would ask for 1e-16 absolute). The floor used to be applied to the
        # squared norm, which is the same at optimum 0 but up to (|v|+o)/2e-9
        # times stricter just above it.
        if n2 < 0.0:
            return False
        dn = abs(math.sqrt(n2) - math.sqrt(optf))
        return dn <= 1e-9 * math.sqrt(optf) or dn <= 2e-9 * scale

    # --- Jolt
    r = run_jolt(points)
    if isinstance(r, LibError):
        fails.append(fail("jolt/exception/" + r.type, repr(r)))
    else:
        ok, v, n2, bits = r
        if not ok or v is None or not finite(v, n2):
            fails.append(fail("jolt/no-result", "success=%r v=%r" % (ok, v)))
        else:
            v = np.asarray(v, dtype=float)
            n2 = float(n2)
            if not norm_ok(float(v.dot(v))) or not norm_ok(n2):
                fails.append(fail("jolt/not-minimal",
                                  "|v|^2 = %.17g (reported %.17g), exact optimum %.17g" % (float(v.dot(v)), n2, optf)))
            idx = [i for i in range(4) if (int(bits) >> i) & 1]
            if not idx or max(idx) >= k:
                fails.append(fail("jolt/subset-invalid", "bit set %r for %d points" % (bin(int(bits)), k)))
            elif not _in_hull([points[i] for i in idx], v, tolh):
                fails.append(fail("jolt/subset-does-not-contain-v",
                                  "returned subset %r does not contain v" % (idx,)))
    # --- original (backup procedure)
    r = run_original(points)
    if isinstance(r, LibError):
        fails.append(fail("original/exception/" + r.type, repr(r)))
    else:
        v, n2, sub, bary = r
        if not finite(v, n2, sub, bary):
            fails.append(fail("original/nonfinite", "v=%r bary=%r" % (v, bary)))
        else:
            if not norm_ok(float(v.dot(v))) or not norm_ok(n2):
                fails.append(fail("original/not-minimal",
                                  "|v|^2 = %.17g (reported %.17g), exact optimum %.17g" % (float(v.dot(v)), n2, optf)))
            pts_arr = np.array(points, dtype=float)
            for row in sub:
                if not np.any(np.all(pts_arr == row, axis=1)):
                    fails.append(fail("original/subset-not-input", "returned simplex row %r is not an input point" % (row.tolist(),)))
                    break
            if np.any(bary < -1e-12) or abs(float(bary.sum()) - 1.0) > 1e-9:
                fails.append(fail("original/weights-invalid", "weights %r" % (bary.tolist(),)))
            rec = bary.dot(sub)
            if float(np.linalg.norm(rec - v)) > tolh:
                fails.append(fail("original/weights-do-not-reproduce",
                                  "weights %r over the returned subset give %r, not v = %r" % (
                                      bary.tolist(), rec.tolist(), v.tolist())))
            if not _in_hull(sub.tolist(), v, tolh):
                fails.append(fail("original/subset-does-not-contain-v", "returned subset does not contain v"))
    labels = ["k=%d" % k, "support=%d" % nsup]
    if len(optsets) > 1:
        labels.append("tie")
    return fails, {"labels": labels, "nontrivial": nontrivial}


def check_case(case, cell):
    return check_points(case["points"])


def run_direct(cell, seed, tier, known):
    """Enumerate one shard of the {-1,0,1} lattice."""
    stats = Stats()
    violations = []
    seen = set()
    shard = cell["shard"]
    step = NSHARDS if tier == "thorough" else NSHARDS * 16
    start = shard if tier == "thorough" else shard + NSHARDS * (seed % 16)
    for idx in range(start, TOTAL, step):
        pts = config_from_index(idx)
        fails, info = check_points(pts)
        info["fp"] = "L%d" % idx
        stats.record({"points": pts}, info, bool(fails))
        for f in fails:
            kid = match_known(f, {"points": pts}, known) if known else None
            if kid:
                stats.known_hit(kid, {"points": pts}, f)
            elif f["bucket"] not in seen and len(violations) < 5:
                seen.add(f["bucket"])
                path = write_replay("C18", {"name": cell["name"]}, {"points": pts}, f)
                violations.append({"bucket": f["bucket"], "msg": f["msg"], "replay": path})
    res = stats.result()
    res.update({"violations": violations, "harness_error": None, "wall_s": 0.0})
    return res


def _min_gram_det(points, relative=False):
    """smallest non-zero |Gram determinant| over all vertex subsets of size
    2..k (edges from the first vertex of the subset): the quantities Johnson's
    sub-algorithm compares with an absolute 10*eps are of this kind"""
    P = np.array(points, dtype=float)
    best = np.inf
    k = len(P)
    for r in range(2, k + 1):
        for sub in itertools.combinations(range(k), r):
            E = P[list(sub[1:])] - P[sub[0]]
            d = abs(float(np.linalg.det(E.dot(E.T))))
            if relative:
                m2 = float(np.max(np.sum(E * E, axis=1)))
                d = d / m2 ** len(E) if m2 > 0 else 0.0
            if 0.0 < d < best:
                best = d
    return best


def _min_face_normal(points):
    """smallest non-zero |(b-a) x (c-a)| over all vertex triples: the plane
    tests of the Jolt solver compare n.p (n un-normalised) with an absolute
    EPSILON, i.e. a distance of EPSILON/|n|"""
    P = np.array(points, dtype=float)
    best = np.inf
    for i, j, k in itertools.combinations(range(len(P)), 3):
        n = float(np.linalg.norm(np.cross(P[j] - P[i], P[k] - P[i])))
        if 0.0 < n < best:
            best = n
    return best


def _flatness(points):
    """|det(b-a, c-a, d-a)| / (longest edge)^3 of a 4-point configuration
    (inf otherwise): the four plane tests of the Jolt solver compare signed
    volumes with an absolute EPSILON; for a nearly flat tetrahedron they are
    rounding noise of the size of its volume."""
    if len(points) != 4:
        return np.inf
    P = np.array(points, dtype=float)
    e = max(float(np.linalg.norm(P[i] - P[j])) for i, j in itertools.combinations(range(4), 2))
    if e == 0.0:
        return np.inf
    return abs(float(np.linalg.det(P[1:] - P[0]))) / e ** 3


def match_known(f, case, known):
    """C18-K1: the original GJK's backup procedure compares cofactor-like
    quantities (which scale with size^6) with an absolute 10*eps; for
    configurations smaller than ~3e-3 it misclassifies the Voronoi region."""
    ids = {k["id"] for k in known}
    m = max(abs(x) for p in case["points"] for x in p)
    if "C18-K1" in ids and f["bucket"].startswith("original/") and \
            (_min_gram_det(case["points"]) < 1e-9 or _min_gram_det(case["points"], relative=True) < 1e-6):
        return "C18-K1"
    if "C18-K2" in ids and f["bucket"].startswith("jolt/") and \
            (m <= 1e-5 or _min_gram_det(case["points"]) <= 1e-26 or _min_face_normal(case["points"]) <= 1e-7
             or 0.0 < _flatness(case["points"]) <= 1e-9):
        return "C18-K2"
    return None
