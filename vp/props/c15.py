"""C15 - hydroelastic contact polygons lie on the contact plane inside both
tetrahedra; disjoint bodies give intersection=False and zero wrenches."""
import math

import numpy as np
from hypothesis import strategies as st

from ..common import fail, call_lib, LibError, finite
from ..gen import atoms
from ..gen.colliders import pose_matrix
from .c04 import body_case, make_body

RULE = ("(a) Hypothesis single tetrahedron pairs: random tetrahedra (volume "
        ">= 1e-6*size^3), lattice corner tetrahedra (faces parallel to the "
        "contact plane), tetrahedra of the box factory; linear potentials "
        "(3 zeros + 1 positive, or general non-negative); Young's moduli in "
        "[1e-2,1e2]; relative poses incl. identical, stacked, shared "
        "rotation; intersect_tetrahedron_pair. (b) body pairs of all six "
        "factories at generated poses incl. axis-aligned stacking with "
        "penetration 1e-3..0.5 of the size and disjoint placements; "
        "find_contact_surface / contact_forces. Oracle per polygon: vertices "
        "on the plane (1e-9*L), barycentric coordinates in both tetrahedra >= "
        "-1e-9 (own linear solve), convex consistent order, force parallel "
        "to the normal with pressure*area >= 0, swap gives the same vertex "
        "set and the negated normal; disjoint bodies (certified by AABB gap "
        "of the world-frame vertex sets) -> intersection False, zero "
        "wrenches. Non-trivial: polygon with >= 3 distinct vertices or a "
        "tetrahedron face parallel to the contact plane.")
ASSUMPTIONS = ["tolerances: 1e-9*L on the plane, -1e-9 on barycentric coordinates as the property states"]
N_PAIR = {"quick": 400, "thorough": 20000}
N_BODY = {"quick": 8, "thorough": 150}
FACTORIES = ["sphere", "ellipsoid", "cube", "box", "cylinder", "capsule"]


def cells(tier):
    out = [{"name": "pair-" + v, "what": "pair", "variant": v, "n": N_PAIR[tier]}
           for v in ("random", "lattice", "factory")]
    for a in FACTORIES:
        for b in FACTORIES:
            if a <= b:
                out.append({"name": "bodies-%s-%s" % (a, b), "what": "bodies", "A": a, "B": b,
                            "n": N_BODY[tier], "cost": N_BODY[tier] * 400})
    return out


# ------------------------------------------------------------------ pairs

def _tet_random(draw):
    f = atoms.coord(-1, 1)
    V = np.array([[draw(f) for _ in range(3)] for _ in range(4)])
    if abs(np.linalg.det(V[1:] - V[0])) < 1e-2:
        V = np.array([[1, 1, 1], [1, -1, -1], [-1, 1, -1], [-1, -1, 1.0]]) * 0.5
    return V


def _tet_corner(draw):
    a, b, c = [draw(st.sampled_from([1.0, 2.0, 0.5])) for _ in range(3)]
    V = np.array([[0, 0, 0], [a, 0, 0], [0, b, 0], [0, 0, c]], dtype=float)
    perm = draw(st.permutations([0, 1, 2, 3]))
    return V[list(perm)]


def _tet_factory(draw):
    from distance3d.hydroelastic_contact._tetra_mesh_creation import make_tetrahedral_box
    size = np.array([draw(st.sampled_from([1.0, 2.0, 0.5])) for _ in range(3)])
    V, T, pot = make_tetrahedral_box(size)
    i = draw(st.integers(0, len(T) - 1))
    return np.asarray(V)[T[i]], np.asarray(pot)[T[i]]


@st.composite
def pair_case(draw, variant):
    pot1 = pot2 = None
    if variant == "random":
        t1, t2 = _tet_random(draw), _tet_random(draw)
    elif variant == "lattice":
        t1, t2 = _tet_corner(draw), _tet_corner(draw)
    else:
        t1, pot1 = _tet_factory(draw)
        t2, pot2 = _tet_factory(draw)
    scale = draw(atoms.sizes(1e-2, 1e2))
    rel = draw(st.sampled_from(["identical", "stack", "shared-rot", "free"]))
    if rel == "identical":
        t2 = t1.copy()
        R = np.eye(3)
        off = np.zeros(3)
    else:
        if rel == "free":
            R = np.array(draw(atoms.rotations()))
        else:
            R = np.array(draw(atoms.rot_signed_perm))
        if variant == "lattice" or rel == "stack":
            off = np.array([draw(st.sampled_from([0.0, 0.25, -0.25, 0.5, 0.1])) for _ in range(3)])
        else:
            off = np.array(draw(atoms.pos_ball(0.8)))
        t2 = (t2 - t2.mean(axis=0)).dot(R.T) + t1.mean(axis=0) + off
    posz = st.floats(0.05, 2.0, allow_nan=False, width=64)

    def potentials(given):
        mode = draw(st.sampled_from(["factory", "one-hot", "general"]))
        if given is not None and mode == "factory" and np.any(given > 0):
            return given / max(given.max(), 1e-300)
        if mode == "general":
            return np.array([draw(st.one_of(st.just(0.0), posz)) for _ in range(4)]) + \
                np.array([0, 0, 0, 0.05])
        e = np.zeros(4)
        e[draw(st.integers(0, 3))] = draw(posz)
        return e
    e1 = potentials(pot1) * scale
    e2 = potentials(pot2) * scale
    # tetrahedra are handed over in body 2's frame (find_contact_surface
    # expresses body 1 in it): coordinates stay at the scale of the bodies
    far = np.zeros(3)
    ym = [draw(st.sampled_from([1.0, 1e-2, 1e2, 2.5, 0.3])) for _ in range(2)]
    return {"t1": (t1 * scale + far).tolist(), "t2": (t2 * scale + far).tolist(),
            "e1": e1.tolist(), "e2": e2.tolist(), "ym": ym, "rel": rel, "variant": variant}


def strategy(cell):
    if cell["what"] == "pair":
        return pair_case(cell["variant"])
    return bodies_case(cell["A"], cell["B"])


@st.composite
def bodies_case(draw, fa, fb):
    a = draw(body_case(fa, 0.1, 5.0))
    b = draw(body_case(fb, 0.1, 5.0))
    for c_ in (a, b):
        c_.pop("express_in", None)
        c_.pop("update_pose", None)
    for c in (a, b):
        if "order" in c:
            c["order"] = min(c["order"], 1)
        if "hint_div" in c:
            c["hint_div"] = min(c["hint_div"], 6)
    mode = draw(st.sampled_from(["stack", "overlap", "disjoint"]))
    ra, rb = _body_radius(a), _body_radius(b)
    if mode == "stack":
        P = np.array(draw(atoms.rot_signed_perm))
        a["R"] = P.tolist()
        b["R"] = np.array(draw(atoms.rot_signed_perm)).tolist()
        ax = draw(st.integers(0, 2))
        pen = draw(st.sampled_from([1e-3, 0.01, 0.1, 0.5])) * min(ra, rb)
        ha, hb = _half_extent(a, ax), _half_extent(b, ax)
        off = np.zeros(3)
        off[ax] = ha + hb - pen
        lat = draw(st.sampled_from([0.0, 0.0, 0.1]))
        off[(ax + 1) % 3] = lat * min(ra, rb)
        b["p"] = (np.array(a["p"]) + off).tolist()
    elif mode == "overlap":
        u = atoms.unit(draw(atoms.dir_random))
        f = draw(st.sampled_from([0.0, 0.3, 0.6, 0.9]))
        b["p"] = (np.array(a["p"]) + f * (ra + rb) * 0.5 * u).tolist()
    else:
        u = atoms.unit(draw(atoms.dir_random))
        f = draw(st.sampled_from([1.05, 1.5, 3.0]))
        b["p"] = (np.array(a["p"]) + f * (ra + rb) * u).tolist()
    c = draw(body_case("box", 0.1, 2.0))
    c.pop("express_in", None)
    c.pop("update_pose", None)
    c["p"] = (np.array(b["p"]) + 0.4 * rb * atoms.unit(draw(atoms.dir_random))).tolist()
    return {"a": a, "b": b, "c": c, "mode": mode, "history": draw(st.booleans()),
            "ym": [draw(st.sampled_from([1.0, 1e-2, 1e2, 3.0])) for _ in range(2)]}


def _body_radius(c):
    f = c["factory"]
    if f == "sphere":
        return c["radius"]
    if f == "ellipsoid":
        return max(c["radii"])
    if f == "cube":
        return c["size"] * math.sqrt(3) / 2
    if f == "box":
        return float(np.linalg.norm(c["size"])) / 2
    if f == "cylinder":
        return math.hypot(c["radius"], c["length"] / 2)
    return c["radius"] + c["height"] / 2


def _half_extent(c, world_axis):
    """half extent along a world axis for a signed-permutation rotation"""
    R = np.array(c["R"])
    k = int(np.argmax(np.abs(R[world_axis])))
    f = c["factory"]
    if f == "sphere":
        return c["radius"]
    if f == "ellipsoid":
        return c["radii"][k]
    if f == "cube":
        return c["size"] / 2
    if f == "box":
        return c["size"][k] / 2
    if f == "cylinder":
        return c["length"] / 2 if k == 2 else c["radius"]
    return c["height"] / 2 + c["radius"] if k == 2 else c["radius"]


# --------------------------------------------------------------- oracles

def bary(tet, x):
    A = np.vstack([np.asarray(tet, dtype=float).T, np.ones((1, 4))])
    return np.linalg.solve(A, np.append(x, 1.0))


def polygon_failures(poly, plane, t1, t2, L, tag):
    """Geometry clauses for one reported polygon."""
    fails = []
    poly = np.asarray(poly, dtype=float)
    n = np.asarray(plane[:3], dtype=float)
    d = float(plane[3])
    if not finite(poly, plane):
        return [fail("nonfinite/" + tag, "polygon or plane not finite")]
    if abs(float(np.linalg.norm(n)) - 1.0) > 1e-9:
        fails.append(fail("plane-normal/" + tag, "|n| = %r" % float(np.linalg.norm(n))))
    off = np.abs(poly.dot(n) - d)
    if off.max() > 1e-9 * L:
        fails.append(fail("off-plane/" + tag, "polygon vertex %.3g off the contact plane (tol %.3g)" % (off.max(), 1e-9 * L)))
    worst = 0.0
    for x in poly:
        for k, t in enumerate((t1, t2)):
            b = bary(t, x)
            if b.min() < worst:
                # sliver tetrahedra (near-medium cylinders) amplify rounding in
                # the dimensionless coordinate by 1/height: a vertex within
                # 1e-12*L of the face plane is inside
                A = np.vstack([np.asarray(t, dtype=float).T, np.ones((1, 4))])
                g = np.linalg.inv(A)[int(np.argmin(b)), :3]
                dist = float(b.min()) / max(float(np.linalg.norm(g)), 1e-300)
                if dist < -1e-12 * L:
                    worst = float(b.min())
    if worst < -1e-9:
        fails.append(fail("outside-tetrahedron/" + tag,
                          "polygon vertex has barycentric coordinate %.3g (< -1e-9)" % worst, worst=worst))
    # convexity / order in plane coordinates
    if len(poly) >= 3:
        k = int(np.argmin(np.abs(n)))
        e = np.zeros(3)
        e[k] = 1.0
        u = np.cross(n, e)
        u /= np.linalg.norm(u)
        v = np.cross(n, u)
        q = np.stack([poly.dot(u), poly.dot(v)], axis=1)
        m = len(q)
        cr = []
        for i in range(m):
            a, b, c = q[i], q[(i + 1) % m], q[(i + 2) % m]
            cr.append((b[0] - a[0]) * (c[1] - b[1]) - (b[1] - a[1]) * (c[0] - b[0]))
        cr = np.array(cr)
        ext = max(float(np.abs(q - q.mean(axis=0)).max()), 1e-300)
        # 1e-9 relative to the polygon size, plus the rounding noise of the
        # coordinates themselves (tiny sliver polygons)
        thr = 1e-9 * ext * ext + 1e-13 * max(float(np.abs(poly).max()), L) * ext
        if cr.min() < -thr and cr.max() > thr:
            fails.append(fail("not-convex/" + tag, "polygon vertices are not in convex angular order"))
    return fails


def check_pair(case):
    from distance3d.hydroelastic_contact import _tetrahedron_intersection as TI
    from distance3d.hydroelastic_contact._barycentric_transform import barycentric_transforms
    from distance3d.hydroelastic_contact._forces import compute_contact_force
    t1 = np.ascontiguousarray(np.array(case["t1"], dtype=float))
    t2 = np.ascontiguousarray(np.array(case["t2"], dtype=float))
    e1 = np.ascontiguousarray(np.array(case["e1"], dtype=float))
    e2 = np.ascontiguousarray(np.array(case["e2"], dtype=float))
    y1, y2 = case["ym"]
    L = max(1.0, float(np.abs(np.vstack([t1, t2]) - t1.mean(axis=0)).max()))
    tag = case["variant"]
    labels = [case["variant"], "rel:" + case["rel"]]

    def run(ta, ea, ya, tb, eb, yb):
        Xa = np.ascontiguousarray(barycentric_transforms(ta[None])[0])
        Xb = np.ascontiguousarray(barycentric_transforms(tb[None])[0])
        return TI.intersect_tetrahedron_pair(ta, ea, Xa, tb, eb, Xb, float(ya), float(yb))
    r = call_lib(run, t1, e1, y1, t2, e2, y2)
    if isinstance(r, LibError):
        return [fail("exception/pair/" + r.type, repr(r))], {"labels": labels, "nontrivial": True}
    inter, (plane, poly) = r
    fails = []
    nt = False
    if inter and poly is not None and len(poly) >= 3:
        poly = np.asarray(poly, dtype=float)
        distinct = len(np.unique(np.round(poly / max(L, 1e-300), 12), axis=0))
        labels.append("polygon-%d" % min(distinct, 8))
        nt = distinct >= 3
        fails += polygon_failures(poly, plane, t1, t2, L, tag)
        n = np.asarray(plane[:3])
        for t in (t1, t2):
            for f in ((0, 1, 2), (0, 1, 3), (0, 2, 3), (1, 2, 3)):
                fn = np.cross(t[f[1]] - t[f[0]], t[f[2]] - t[f[0]])
                if np.linalg.norm(np.cross(fn / np.linalg.norm(fn), n)) < 1e-9:
                    labels.append("face-parallel-to-plane")
                    nt = True
        cf = call_lib(compute_contact_force, t1, e1, np.asarray(plane), np.ascontiguousarray(poly), float(y1))
        if isinstance(cf, LibError):
            fails.append(fail("exception/force/" + cf.type, repr(cf)))
        else:
            com, force, area, tri = cf
            if not finite(com, force, area) or area < 0:
                fails.append(fail("force-nonfinite/" + tag, "force=%r area=%r" % (force, area)))
            else:
                fm = float(np.dot(force, n))
                if float(np.linalg.norm(np.cross(force, n))) > 1e-9 * max(1.0, abs(fm)):
                    fails.append(fail("force-not-normal/" + tag, "force %r not parallel to normal %r" % (force.tolist(), n.tolist())))
                if distinct >= 3 and not fails and fm < -1e-9 * max(1.0, float(np.max(e1)) * y1 * area):
                    fails.append(fail("negative-pressure/" + tag,
                                      "pressure*area = %.6g < 0 (vertices inside tetrahedron 1)" % fm))
        # order independence
        r2 = call_lib(run, t2, e2, y2, t1, e1, y1)
        if isinstance(r2, LibError):
            fails.append(fail("exception/pair-swapped/" + r2.type, repr(r2)))
        else:
            inter2, (plane2, poly2) = r2
            if not inter2 or poly2 is None or len(poly2) < 3:
                if distinct >= 3 and not fails:
                    fails.append(fail("swap-asymmetric/" + tag, "intersection reported for (1,2) but not for (2,1)"))
            elif distinct >= 3:
                poly2 = np.asarray(poly2, dtype=float)
                dmat = np.linalg.norm(poly[:, None, :] - poly2[None, :, :], axis=2)
                hd = max(dmat.min(axis=1).max(), dmat.min(axis=0).max())
                if hd > 1e-9 * L and not fails:
                    # unmatched vertices and how degenerate they are: number of
                    # (near-)zero barycentric coordinates over both tetrahedra
                    un = [x for x, m in zip(poly, dmat.min(axis=1)) if m > 1e-9 * L] + \
                         [x for x, m in zip(poly2, dmat.min(axis=0)) if m > 1e-9 * L]
                    zeros = [int(np.sum(np.abs(np.concatenate([bary(t1, x), bary(t2, x)])) <= 1e-9))
                             for x in un]
                    fails.append(fail("swap-polygon-differs/" + tag,
                                      "polygons of (1,2) and (2,1) differ by %.3g (Hausdorff); %d unmatched vertices" % (hd, len(un)),
                                      unmatched_zero_counts=zeros,
                                      sizes=[int(len(poly)), int(len(poly2))]))
                if float(np.linalg.norm(np.asarray(plane2[:3]) + n)) > 1e-9 and not fails:
                    fails.append(fail("swap-normal/" + tag, "normal not negated when swapping"))
    else:
        labels.append("no-intersection")
    return fails, {"labels": labels, "nontrivial": bool(nt)}


def check_bodies(case):
    from distance3d.hydroelastic_contact import find_contact_surface, contact_forces
    labels = ["bodies", "mode:" + case["mode"], case["a"]["factory"], case["b"]["factory"]]
    b1 = call_lib(make_body, case["a"])
    b2 = call_lib(make_body, case["b"])
    for b in (b1, b2):
        if isinstance(b, LibError):
            return [fail("exception/body/" + b.type, repr(b))], {"labels": labels, "nontrivial": False}
    b1.youngs_modulus, b2.youngs_modulus = case["ym"]
    W1 = np.asarray(b1.vertices_).dot(np.asarray(b1.body2origin_)[:3, :3].T) + np.asarray(b1.body2origin_)[:3, 3]
    W2 = np.asarray(b2.vertices_).dot(np.asarray(b2.body2origin_)[:3, :3].T) + np.asarray(b2.body2origin_)[:3, 3]
    L = max(1.0, float(np.abs(W1 - W1.mean(axis=0)).max()), float(np.abs(W2 - W2.mean(axis=0)).max()))
    # certified disjoint: a separating axis among the coordinate axes / centre line
    disjoint = False
    dirs = [np.eye(3)[i] for i in range(3)]
    c = W2.mean(axis=0) - W1.mean(axis=0)
    if np.linalg.norm(c) > 0:
        dirs.append(c / np.linalg.norm(c))
    for n in dirs:
        if (W2.dot(n)).min() - (W1.dot(n)).max() > 1e-6 * L or (W1.dot(n)).min() - (W2.dot(n)).max() > 1e-6 * L:
            disjoint = True
    fails = []
    r = call_lib(contact_forces, b1, b2)
    if isinstance(r, LibError):
        return [fail("exception/contact_forces/" + r.type, repr(r))], {"labels": labels, "nontrivial": True}
    inter, w12, w21 = r
    if not finite(w12, w21):
        fails.append(fail("wrench-nonfinite", "w12=%r w21=%r" % (w12, w21)))
    if disjoint:
        labels.append("certified-disjoint")
        if inter or np.any(np.asarray(w12) != 0) or np.any(np.asarray(w21) != 0):
            fails.append(fail("disjoint-but-contact", "bodies separated by a plane, intersection=%r |w12|=%.3g" % (
                inter, float(np.linalg.norm(w12)))))
        return fails, {"labels": labels, "nontrivial": False}
    if case.get("history") and "c" in case:
        # the same objects in changing roles: (A,B), (B,C), then (A,B) again;
        # B is body 2, then re-expressed as body 1, then body 2 again
        b3 = call_lib(make_body, case["c"])
        if not isinstance(b3, LibError):
            labels.append("history")
            h = call_lib(lambda: (find_contact_surface(b1, b2), find_contact_surface(b2, b3)))
            if isinstance(h, LibError):
                return fails + [fail("exception/history/" + h.type, repr(h))], {"labels": labels, "nontrivial": True}
    cs = call_lib(find_contact_surface, b1, b2)
    if isinstance(cs, LibError):
        return fails + [fail("exception/find_contact_surface/" + cs.type, repr(cs))], {"labels": labels, "nontrivial": True}
    npoly = 0
    T1 = np.asarray(b1.tetrahedra_points)      # body 1 is expressed in body 2's frame now
    T2 = np.asarray(b2.tetrahedra_points)
    tag = "bodies-%s" % case["mode"]
    bad = 0
    for k, (i, j) in enumerate(zip(cs.intersecting_tetrahedra1, cs.intersecting_tetrahedra2)):
        poly = cs.contact_polygons[k]
        if poly is None or len(poly) < 3:
            continue
        npoly += 1
        pf = polygon_failures(poly, cs.contact_planes[k], T1[i], T2[j], L, tag)
        if pf:
            bad += 1
            if len(fails) < 4:
                for f in pf:
                    f["msg"] = "pair (%d,%d): %s" % (i, j, f["msg"])
                    f["data"]["bad_index"] = k
                fails += pf
    for f in fails:
        f["data"]["bad_polygons"] = bad
        f["data"]["polygons"] = npoly
    labels.append("polygons>0" if npoly else "no-polygons")
    return fails, {"labels": labels, "nontrivial": npoly > 0, "counters": {"polygons_checked": npoly}}


def check_case(case, cell):
    if "t1" in case:
        return check_pair(case)
    return check_bodies(case)


def match_known(f, case, known):
    """C15-K1: a polygon vertex where three or more halfplane boundaries meet
    (>= 3 barycentric coordinates of the two tetrahedra vanish there) is kept
    or dropped by the absolute -EPSILON test of point_outside_of_halfplane
    depending on rounding, i.e. on the argument order."""
    ids = {k["id"] for k in known}
    d = f.get("data", {})
    if "C15-K1" in ids and f["bucket"].startswith("swap-polygon-differs/"):
        z = d.get("unmatched_zero_counts")
        if z and all(c >= 3 for c in z):
            return "C15-K1"
    return None
