"""Shared helpers for the narrow-phase properties (C02, C07-C09, C12, C19)."""
import numpy as np

from ..common import call_lib, LibError

PRIMITIVE_KINDS = ["sphere", "capsule", "box", "ellipsoid", "cylinder"]


def is_primitive_pair(case):
    return (case["A"]["kind"] in PRIMITIVE_KINDS and case["B"]["kind"] in PRIMITIVE_KINDS
            and not case["A"].get("margin") and not case["B"].get("margin"))


def pair_tag(case):
    def t(s):
        return s["kind"] + ("+m" if s.get("margin") else "")
    return "%s-%s" % (t(case["A"]), t(case["B"]))


def boolean_tests(case):
    """name -> callable(A, B) -> bool for every boolean test that accepts the pair"""
    from distance3d import gjk, mpr
    t = {
        "jolt": gjk.gjk_intersection_jolt,
        "libccd": gjk.gjk_intersection_libccd,
        "mpr": mpr.mpr_intersection,
        "nesterov": gjk.gjk_nesterov_accelerated_intersection,
    }
    if is_primitive_pair(case):
        t["nesterov-prim"] = gjk.gjk_nesterov_accelerated_primitives_intersection
    return t


def distance_algorithms(case):
    """name -> callable(A, B) -> result. 'original' returns the library tuple;
    the Nesterov entries return (distance, iterations or None)."""
    from distance3d import gjk

    def raw(fn, flag):
        def call(a, b):
            r = fn(a, b, use_nesterov_acceleration=flag)
            return max(r[1], 0.0), int(r[3])
        return call
    t = {
        "original": gjk.gjk_distance_original,
        "nesterov": lambda a, b: (gjk.gjk_nesterov_accelerated_distance(a, b), None),
        "nesterov-raw": raw(gjk.gjk_nesterov_accelerated, False),
        "nesterov-acc": raw(gjk.gjk_nesterov_accelerated, True),
    }
    if is_primitive_pair(case):
        t["nesterov-prim"] = lambda a, b: (gjk.gjk_nesterov_accelerated_primitives_distance(a, b), None)
        t["nesterov-prim-raw"] = raw(gjk.gjk_nesterov_accelerated_primitives, False)
        t["nesterov-prim-acc"] = raw(gjk.gjk_nesterov_accelerated_primitives, True)
    return t


def exc_fail(res, what=""):
    from ..common import fail
    return fail("exception/%s/%s" % (res.type, res.frame), "%s %r" % (what, res))
