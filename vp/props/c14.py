"""C14 - a collider after update_pose behaves like a freshly built one."""
import numpy as np
from hypothesis import strategies as st

from ..common import fail, call_lib, LibError, finite
from ..gen import atoms
from ..gen.colliders import specs, build, pose_matrix
from ..ref.shapes import ref

RULE = ("Hypothesis histories per collider kind (all that implement "
        "update_pose: sphere, ellipsoid, capsule, cylinder, cone, box, disk, "
        "ellipse, mesh; each also wrapped in Margin): op list of "
        "update_pose(pose) - pose a fresh 4x4 array or item i of a "
        "C-contiguous (k,4,4) stack - interleaved with support(d), aabb(), "
        "center(), first_vertex(), gjk distance and intersection against a "
        "generated probe. Oracle: the same query on a NEW collider of the "
        "same class constructed at the last pose; equality to 1e-9*L; no "
        "exception. Non-trivial: >= 1 update_pose followed by >= 1 support/"
        "GJK query. Distinct by hash of the history.")
ASSUMPTIONS = ["fresh object is built through the documented constructor from the same sizes and the last pose"]
KINDS = ["sphere", "ellipsoid", "capsule", "cylinder", "cone", "box", "disk", "ellipse", "mesh"]
N = {"quick": 100, "thorough": 3000}
STEPS = {"quick": 10, "thorough": 25}


def cells(tier):
    # the mesh cell has more state (cached start vertex, unreferenced vertices)
    return [{"name": k, "kind": k, "n": N[tier] * (4 if k == "mesh" else 1), "steps": STEPS[tier]}
            for k in KINDS]


@st.composite
def _case(draw, kind, steps):
    spec = draw(specs(kind, margin=True, size_lo=0.05, size_hi=20.0))
    probe = draw(specs(draw(st.sampled_from(["sphere", "box", "capsule", "cone", "hull"])),
                       size_lo=0.05, size_hi=20.0))
    pose = st.fixed_dictionaries({
        "op": st.just("update_pose"), "R": atoms.rotations(),
        "p": atoms.positions(10.0),
        "stack": st.one_of(st.none(), st.tuples(st.integers(1, 4), st.integers(0, 3)))})
    R0 = spec.get("R", np.eye(3).tolist())
    dirs = atoms.directions_for(R0)
    if kind == "mesh":
        # also query along (vertex - centroid) in the mesh frame, in particular
        # towards vertex 0, which may be an interior vertex no triangle uses;
        # the op applies the current rotation ("local": True)
        V = np.array(spec["vertices"], dtype=float)
        idx = st.sampled_from([0, 0, len(V) - 1, len(V) // 2])
        local = idx.map(lambda i: (V[i] - V.mean(axis=0)).tolist()).filter(
            lambda v: float(np.linalg.norm(v)) > 1e-9)
        q_local = st.fixed_dictionaries({"op": st.just("support"), "d": local, "local": st.just(True)})
    else:
        q_local = st.fixed_dictionaries({"op": st.just("support"), "d": dirs})
    q = st.one_of(
        st.fixed_dictionaries({"op": st.just("support"), "d": dirs}), q_local, q_local,
        st.just({"op": "aabb"}), st.just({"op": "center"}), st.just({"op": "first_vertex"}),
        st.just({"op": "gjk"}), st.just({"op": "intersection"}))
    ops = draw(st.lists(st.one_of(pose, q, q), min_size=1, max_size=steps))
    if draw(st.integers(0, 4)) > 0:
        ops = [draw(pose)] + ops
    return {"spec": spec, "probe": probe, "ops": ops}


def strategy(cell):
    return _case(cell["kind"], cell.get("steps", 10))


def _pose_array(op):
    T = pose_matrix(op["R"], op["p"])
    if op.get("stack"):
        k, i = op["stack"]
        i = i % k
        S = np.ascontiguousarray(np.stack([np.eye(4) if j != i else T for j in range(k)]))
        return S[i]
    return T


def check_case(case, cell):
    from distance3d import gjk
    spec = dict(case["spec"])
    kind = spec["kind"]
    obj = call_lib(build, spec)
    probe = build(case["probe"])
    tag = kind + ("+m" if spec.get("margin") else "")
    if isinstance(obj, LibError):
        return [fail("exception/%s/%s" % (obj.type, obj.frame), "constructor: %r" % obj)], {"labels": [kind], "nontrivial": False}
    L = max(1.0, ref(spec).feature_size(), ref(case["probe"]).feature_size(), 20.0)
    tol = 1e-9 * L
    fails = []
    labels = {kind}
    if spec.get("margin"):
        labels.add("margin")
    updated = False
    nontrivial = False
    cur = spec
    for i, op in enumerate(case["ops"]):
        name = op["op"]
        where = "step %d %s" % (i, name)
        if name == "update_pose":
            T = _pose_array(op)
            r = call_lib(obj.update_pose, T)
            cur = dict(cur, R=op["R"], p=op["p"])
            if kind == "sphere":
                cur["R"] = np.eye(3).tolist()
            updated = True
            labels.add("stack-item" if op.get("stack") else "fresh-array")
            if isinstance(r, LibError):
                fails.append(fail("exception/%s/%s" % (r.type, r.frame), "%s: %r" % (where, r)))
                break
            if kind == "mesh" and i % 2 == 0:
                # probe right after the update: support towards vertex 0 (may be
                # an interior vertex) must equal a fresh object's answer
                V = np.array(spec["vertices"], dtype=float)
                d = np.ascontiguousarray(np.array(cur["R"], dtype=float).dot(V[0] - V.mean(axis=0)))
                if float(np.linalg.norm(d)) > 1e-9:
                    pa = call_lib(obj.support_function, d.copy())
                    pb = call_lib(build(cur).support_function, d.copy())
                    nontrivial = True
                    if isinstance(pa, LibError) and not isinstance(pb, LibError):
                        fails.append(fail("exception-after-update/%s/%s/%s" % (pa.type, pa.frame, tag),
                                          "%s: first support query after update_pose raised %r" % (where, pa)))
                        break
                    if not isinstance(pa, LibError) and not isinstance(pb, LibError):
                        if abs(float(d.dot(pa)) - float(d.dot(pb))) / float(np.linalg.norm(d)) > tol:
                            fails.append(fail("differs/support-after-update/" + tag,
                                              "%s: first support query after update_pose differs from a fresh object" % where))
                            break
            continue
        fresh = build(cur)

        def both(f):
            a = call_lib(f, obj)
            b = call_lib(f, fresh)
            return a, b
        if name == "support":
            d = np.ascontiguousarray(np.array(op["d"], dtype=float))
            if op.get("local"):
                d = np.ascontiguousarray(np.array(cur["R"], dtype=float).dot(d))
            a, b = both(lambda o: o.support_function(d.copy()))
        elif name == "aabb":
            a, b = both(lambda o: o.aabb())
        elif name == "center":
            a, b = both(lambda o: o.center())
        elif name == "first_vertex":
            a, b = both(lambda o: o.first_vertex())
        elif name == "gjk":
            a, b = both(lambda o: gjk.gjk_distance_jolt(o, probe)[:3])
        else:
            a, b = both(lambda o: gjk.gjk_intersection_jolt(o, probe))
        if updated and name in ("support", "gjk", "intersection"):
            nontrivial = True
            labels.add("query-after-update")
        if isinstance(b, LibError):
            # fresh object itself fails: not this property's matter
            continue
        if isinstance(a, LibError):
            fails.append(fail("exception-after-update/%s/%s/%s" % (a.type, a.frame, tag),
                              "%s raised on the updated object but not on a fresh one: %r" % (where, a)))
            break
        if name == "intersection":
            if bool(a) != bool(b):
                fails.append(fail("differs/%s/%s" % (name, tag), "%s: %r vs fresh %r" % (where, a, b)))
        elif name == "gjk":
            if a[1] is None or b[1] is None:
                if (a[1] is None) != (b[1] is None):
                    fails.append(fail("differs/gjk/" + tag, "%s: clip differs" % where))
            else:
                if abs(a[0] - b[0]) > tol:
                    fails.append(fail("differs/gjk/" + tag, "%s: d=%r vs fresh %r" % (where, a[0], b[0])))
        else:
            a = np.asarray(a, dtype=float)
            b = np.asarray(b, dtype=float)
            if a.shape != b.shape or not finite(a) or float(np.max(np.abs(a - b))) > tol:
                if name == "support" and a.shape == b.shape and finite(a):
                    # ties are legitimate: compare the projection value
                    dn = float(np.linalg.norm(d))
                    if abs(float(d.dot(a)) - float(d.dot(b))) / dn <= tol:
                        continue
                fails.append(fail("differs/%s/%s" % (name, tag),
                                  "%s: %r vs fresh %r" % (where, a.tolist(), b.tolist())))
        if fails:
            break
    return fails, {"labels": sorted(labels), "nontrivial": nontrivial}


def match_known(f, case, known):
    return None
