"""C05 - AABB tree answers overlap queries exactly for every insertion history.

Histories are generated as op lists (serialisable, shrink as one value) and
run against a list model with a brute-force closed-interval overlap test.
"""
import json
import os
import shutil

import numpy as np
from hypothesis import strategies as st

from ..common import fail, call_lib, LibError, REPLAY_DIR

RULE = ("Hypothesis op lists: insert_aabbs batches (size 0-8, mode none/sort/"
        "shuffle, with/without external data), insert_aabb, box queries, "
        "tree-tree queries against a second generated tree (incl. empty), "
        "root-box reads; boxes on an integer lattice (touching, nested, "
        "duplicate, zero-extent) or float. Oracle: brute force over a list "
        "model. Run in jit and NUMBA_BOUNDSCHECK=1 modes. Non-trivial: >= 2 "
        "non-empty batches, or a query on an empty tree, or a query box that "
        "shares a face coordinate with an inserted box. Distinct by hash of "
        "the op list.")
ASSUMPTIONS = ["closed-interval overlap test on the exact float coordinates",
               "a worker killed by a signal, or IndexError in boundscheck mode, counts as violation"]

N = {"quick": 150, "thorough": 3000}
STEPS = {"quick": 12, "thorough": 30}


def cells(tier):
    out = []
    for mode in ("jit", "boundscheck"):
        for variant in ("lattice", "float", "mixed"):
            out.append({"name": "%s-%s" % (variant, mode), "variant": variant,
                        "mode": mode, "n": N[tier], "steps": STEPS[tier]})
    if tier == "thorough":
        from ..common import fuzz_cells
        out += fuzz_cells("aabbtree", 4, 60000)
    return out


def _box(variant):
    if variant == "lattice":
        c = st.integers(-3, 3)
        e = st.integers(0, 3)
    else:
        c = st.floats(-3, 3, allow_nan=False, width=64)
        e = st.one_of(st.just(0.0), st.floats(0, 3, allow_nan=False, width=64))

    def mk(lo, ext):
        return [[float(lo[i]), float(lo[i]) + float(ext[i])] for i in range(3)]
    return st.builds(mk, st.tuples(c, c, c), st.tuples(e, e, e))


def _boxes(variant):
    if variant == "mixed":
        return st.one_of(_box("lattice"), _box("float"))
    return _box(variant)


def _batch(variant, maxn=8):
    return st.fixed_dictionaries({
        "op": st.just("batch"),
        "boxes": st.lists(_boxes(variant), min_size=0, max_size=maxn),
        "mode": st.sampled_from(["none", "sort", "shuffle"]),
        "data": st.booleans(),
        "rng": st.integers(0, 2 ** 16),
    })


def strategy(cell):
    v = cell["variant"]
    single = st.fixed_dictionaries({"op": st.just("single"), "box": _boxes(v),
                                    "data": st.booleans()})
    query = st.fixed_dictionaries({"op": st.just("query"), "box": _boxes(v)})
    qtree = st.fixed_dictionaries({
        "op": st.just("query_tree"),
        "other": st.lists(_batch(v, 5), min_size=0, max_size=3)})
    root = st.just({"op": "root"})
    op = st.one_of(_batch(v), query, single, qtree, root)
    return st.lists(op, min_size=1, max_size=cell.get("steps", 12)).map(
        lambda ops: {"ops": ops})


def overlap(a, b):
    return all(a[i][0] <= b[i][1] and a[i][1] >= b[i][0] for i in range(3))


def touches(a, b):
    return overlap(a, b) and any(a[i][0] == b[i][1] or a[i][1] == b[i][0]
                                 for i in range(3))


class Model:
    def __init__(self):
        self.items = []     # (box, payload)

    def add(self, box, payload):
        self.items.append((box, payload))


def apply_batch(tree, model, op, tag):
    boxes = op["boxes"]
    payloads = None
    if op["data"]:
        payloads = ["%s%d" % (tag, len(model.items) + i) for i in range(len(boxes))]
    arr = np.array(boxes, dtype=float).reshape(len(boxes), 3, 2)
    np.random.seed(op["rng"])
    r = call_lib(tree.insert_aabbs, arr,
                 list(payloads) if payloads is not None else None,
                 pre_insertion_methode=op["mode"])
    for i, b in enumerate(boxes):
        model.add(b, payloads[i] if payloads is not None else None)
    return r


def structure_failures(tree, model, where):
    """Structural invariants through public attributes."""
    from distance3d import aabb_tree as T
    fails = []
    n = len(model.items)
    nodes = np.asarray(tree.nodes)
    aabbs = np.asarray(tree.aabbs)
    if n == 0:
        return fails, True
    root = tree.root
    if not (0 <= root < len(nodes)):
        return [fail("structure/root", "%s: root index %r invalid" % (where, root))], False
    if nodes[root, T.PARENT_INDEX] != T.INDEX_NONE:
        fails.append(fail("structure/root-parent", "%s: root has a parent" % where))
    seen = set()
    leaves = []
    stack = [root]
    ok = True
    while stack:
        i = stack.pop()
        if i in seen or not (0 <= i < len(nodes)):
            fails.append(fail("structure/cycle-or-range", "%s: node %r revisited/out of range" % (where, i)))
            ok = False
            break
        seen.add(i)
        t = nodes[i, T.TYPE_INDEX]
        if t == T.TYPE_LEAF:
            leaves.append(i)
        elif t == T.TYPE_BRANCH:
            l, r = nodes[i, T.LEFT_INDEX], nodes[i, T.RIGHT_INDEX]
            for c in (l, r):
                if not (0 <= c < len(nodes)) or nodes[c, T.PARENT_INDEX] != i:
                    fails.append(fail("structure/links", "%s: child %r of %r has wrong parent" % (where, c, i)))
                    ok = False
            if not ok:
                break
            u = np.stack([np.minimum(aabbs[l][:, 0], aabbs[r][:, 0]),
                          np.maximum(aabbs[l][:, 1], aabbs[r][:, 1])], axis=1)
            if not np.array_equal(u, aabbs[i]):
                fails.append(fail("structure/branch-box", "%s: branch %d box is not the union of its children" % (where, i)))
            stack.extend([int(l), int(r)])
        else:
            fails.append(fail("structure/type", "%s: node %d has type %r" % (where, i, t)))
            ok = False
            break
    if ok and len(leaves) != n:
        fails.append(fail("structure/leaf-count", "%s: %d leaves reachable, %d boxes inserted" % (where, len(leaves), n)))
    return fails, ok


def map_index(tree, model, idx, where):
    """Return (k, failures): model entry a reported leaf index maps to."""
    fails = []
    if not (0 <= idx < len(tree.aabbs)):
        return None, [fail("query/index-range", "%s: reported index %r out of range" % (where, idx))]
    ins = tree.insert_index_list[idx] if idx < len(tree.insert_index_list) else None
    if ins is None or not (0 <= ins < len(model.items)):
        return None, [fail("query/not-a-leaf", "%s: reported index %d has insert index %r" % (where, idx, ins))]
    box, payload = model.items[ins]
    if not np.array_equal(np.asarray(tree.aabbs[idx]), np.array(box)):
        fails.append(fail("mapping/box", "%s: index %d stores a different box than insertion %d" % (where, idx, ins)))
    ext = tree.external_data_list[idx] if idx < len(tree.external_data_list) else "<missing>"
    if ext != payload:
        fails.append(fail("mapping/external-data", "%s: index %d carries %r, inserted with %r" % (where, idx, ext, payload)))
    return ins, fails


def check_query(tree, model, q, where):
    fails = []
    r = call_lib(tree.overlaps_aabb, np.array(q, dtype=float))
    if isinstance(r, LibError):
        return [fail("exception/%s/%s" % (r.type, r.frame), "%s: %r" % (where, r))]
    flag, idxs = r
    idxs = [int(i) for i in np.asarray(idxs).ravel()]
    if len(set(idxs)) != len(idxs):
        fails.append(fail("query/duplicate", "%s: duplicated indices %r" % (where, idxs)))
    got = set()
    for i in idxs:
        k, f = map_index(tree, model, i, where)
        fails += f
        if k is not None:
            got.add(k)
    exp = {k for k, (b, _) in enumerate(model.items) if overlap(b, q)}
    if got - exp:
        fails.append(fail("query/spurious", "%s: spurious %r" % (where, sorted(got - exp))))
    if exp - got:
        fails.append(fail("query/missing", "%s: missing %r of %d expected" % (where, sorted(exp - got), len(exp))))
    if bool(flag) != (len(idxs) > 0):
        fails.append(fail("query/flag", "%s: flag %r with %d indices" % (where, flag, len(idxs))))
    return fails


def check_tree_query(tree, model, other, omodel, where):
    fails = []
    r = call_lib(tree.overlaps_aabb_tree, other)
    if isinstance(r, LibError):
        return [fail("exception/%s/%s" % (r.type, r.frame), "%s: %r" % (where, r))]
    flag, o1, o2, pairs = r
    got = []
    for p in pairs:
        k1, f1 = map_index(tree, model, int(p[0]), where + "/self")
        k2, f2 = map_index(other, omodel, int(p[1]), where + "/other")
        fails += f1 + f2
        if k1 is not None and k2 is not None:
            got.append((k1, k2))
    if len(set(got)) != len(got):
        fails.append(fail("treequery/duplicate", "%s: duplicated pairs" % where))
    exp = {(i, j) for i, (a, _) in enumerate(model.items)
           for j, (b, _) in enumerate(omodel.items) if overlap(a, b)}
    gs = set(got)
    if gs - exp:
        fails.append(fail("treequery/spurious", "%s: spurious pairs %r" % (where, sorted(gs - exp)[:5])))
    if exp - gs:
        fails.append(fail("treequery/missing", "%s: missing pairs %r" % (where, sorted(exp - gs)[:5])))
    if bool(flag) != (len(pairs) > 0):
        fails.append(fail("treequery/flag", "%s: flag inconsistent" % where))
    s1 = {int(i) for i in np.asarray(o1).ravel()}
    s2 = {int(i) for i in np.asarray(o2).ravel()}
    if s1 != {int(p[0]) for p in pairs} or s2 != {int(p[1]) for p in pairs}:
        fails.append(fail("treequery/index-sets", "%s: overlap index sets differ from pairs" % where))
    return fails


def check_case(case, cell):
    from distance3d.aabb_tree import AabbTree
    tree = AabbTree()
    model = Model()
    fails = []
    nonempty_batches = 0
    empty_query = False
    touching_query = False
    labels = set()
    for step, op in enumerate(case["ops"]):
        where = "step %d (%s)" % (step, op["op"])
        kind = op["op"]
        if kind == "batch":
            r = apply_batch(tree, model, op, "d")
            labels.add("batch-" + op["mode"])
            if op["boxes"]:
                nonempty_batches += 1
                if nonempty_batches >= 2:
                    labels.add("multi-batch-" + op["mode"])
            else:
                labels.add("empty-batch")
            if isinstance(r, LibError):
                fails.append(fail("exception/%s/%s" % (r.type, r.frame), "%s: %r" % (where, r)))
                break
        elif kind == "single":
            payload = "s%d" % len(model.items) if op["data"] else None
            r = call_lib(tree.insert_aabb, np.array(op["box"], dtype=float), payload)
            model.add(op["box"], payload)
            nonempty_batches += 1
            labels.add("single")
            if isinstance(r, LibError):
                fails.append(fail("exception/%s/%s" % (r.type, r.frame), "%s: %r" % (where, r)))
                break
        sf, ok = structure_failures(tree, model, where)
        fails += sf
        if not ok:
            break
        if kind == "query":
            if not model.items:
                empty_query = True
                labels.add("query-empty-tree")
            if any(touches(b, op["box"]) for b, _ in model.items):
                touching_query = True
                labels.add("query-touching")
            fails += check_query(tree, model, op["box"], where)
        elif kind == "query_tree":
            other = AabbTree()
            omodel = Model()
            bad = False
            for ob in op["other"]:
                r = apply_batch(other, omodel, ob, "o")
                if isinstance(r, LibError):
                    fails.append(fail("exception/%s/%s" % (r.type, r.frame), "%s other: %r" % (where, r)))
                    bad = True
                    break
            if bad:
                break
            sf, ok = structure_failures(other, omodel, where + " other")
            fails += sf
            if not ok:
                break
            if not model.items or not omodel.items:
                empty_query = True
                labels.add("treequery-empty")
            labels.add("treequery")
            fails += check_tree_query(tree, model, other, omodel, where)
        elif kind == "root" and model.items:
            r = call_lib(tree.get_root_aabb)
            if isinstance(r, LibError):
                fails.append(fail("exception/%s/%s" % (r.type, r.frame), "%s: %r" % (where, r)))
            else:
                allb = np.array([b for b, _ in model.items])
                u = np.stack([allb[:, :, 0].min(axis=0), allb[:, :, 1].max(axis=0)], axis=1)
                if not np.array_equal(np.asarray(r), u):
                    fails.append(fail("root-box", "%s: root box is not the union" % where))
        if fails:
            break
    info = {"labels": sorted(labels),
            "nontrivial": nonempty_batches >= 2 or empty_query or touching_query}
    return fails, info


def match_known(f, case, known):
    return None


def on_crash(res):
    """A worker killed while running a history: violation with the journal."""
    jp = res.get("journal")
    if not jp or not os.path.exists(jp):
        return None
    os.makedirs(REPLAY_DIR, exist_ok=True)
    with open(jp) as fh:
        body = json.load(fh)
    body["property"] = "C05"
    body["failure"] = {"bucket": "crash", "msg": "worker died rc=%s" % res.get("crash")}
    path = os.path.join(REPLAY_DIR, "C05-crash-%d.json" % abs(hash(json.dumps(body["case"], sort_keys=True))))
    with open(path, "w") as fh:
        json.dump(body, fh)
    return {"bucket": "crash", "msg": "process killed (rc=%s) while running the journaled history" % res.get("crash"),
            "replay": path}
