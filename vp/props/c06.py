"""C06 - BVH broad phase + narrow phase = brute force; self-collision marks."""
import math

import numpy as np
from hypothesis import strategies as st

from ..common import fail, call_lib, LibError
from ..gen import atoms
from ..gen.colliders import specs, build, pose_matrix
from ..ref.shapes import ref
from ..ref.refdist import refdist
from ..ref.penetration import pd_lower

RULE = ("Hypothesis: URDF text from a grammar (2-6 links, chain or tree "
        "topology, revolute/prismatic/fixed joints with limits, random "
        "origins and axes, 0-2 sphere/box/cylinder collision objects per "
        "link, named and unnamed) loaded with UrdfTransformManager, BVH filled "
        "with fill_self_collision_whitelists=True; extra capsule/cone/mesh "
        "colliders attached with add_transform + add_collider and hand-made "
        "(symmetric or asymmetric) whitelists; op list of set_joint / "
        "add_transform followed by update_collider_poses, interleaved with "
        "queries by generated colliders, by a second BVH and self queries. "
        "Oracle: collider pose = reference shape at tm.get_transform (support "
        "values in 6 directions); broad-phase answers = brute force over the "
        "current collider.aabb() boxes; self-collision marks vs all-pairs "
        "reference GJK used only when clear (overlap with ball witness > "
        "delta or certified gap > delta, delta = 1e-3*L). Non-trivial: >= 1 "
        "joint move after filling and >= 1 clear collision or broad-phase hit.")
ASSUMPTIONS = ["frames in unclear pairs (inside the delta band) are skipped for that step and counted"]
N = {"quick": 40, "thorough": 1200}
STEPS = {"quick": 6, "thorough": 12}


def cells(tier):
    return [{"name": t, "topology": t, "n": N[tier], "steps": STEPS[tier], "cost": N[tier] * 300}
            for t in ("chain", "tree", "extra", "star")]


_sz = st.floats(0.1, 0.6, allow_nan=False, width=64)
_xyz = st.tuples(*[st.sampled_from([0.0, 0.0, 0.1, -0.2, 0.3, 0.25])] * 3).map(list)
_rpy = st.one_of(st.just([0.0, 0.0, 0.0]),
                 st.tuples(*[st.floats(-math.pi, math.pi, allow_nan=False, width=64)] * 3).map(list))


@st.composite
def _geom(draw):
    t = draw(st.sampled_from(["sphere", "box", "cylinder"]))
    g = {"type": t, "xyz": draw(_xyz), "rpy": draw(_rpy), "named": draw(st.booleans())}
    if t == "sphere":
        g["radius"] = draw(_sz)
    elif t == "box":
        g["size"] = [draw(_sz), draw(_sz), draw(_sz)]
    else:
        g["radius"] = draw(_sz)
        g["length"] = draw(_sz)
    return g


@st.composite
def _case(draw, topology, steps):
    if topology == "star":
        return draw(_star_case(steps))
    n = draw(st.integers(2, 6))
    links = []
    joints = []
    for i in range(n):
        links.append({"geoms": draw(st.lists(_geom(), min_size=0 if i else 1, max_size=2))})
        if i > 0:
            parent = i - 1 if topology == "chain" else draw(st.integers(0, i - 1))
            jt = draw(st.sampled_from(["revolute", "prismatic", "fixed", "revolute"]))
            axis = draw(st.sampled_from([[1.0, 0, 0], [0, 1.0, 0], [0, 0, 1.0], [0.6, 0.8, 0.0]]))
            joints.append({"parent": parent, "child": i, "type": jt, "xyz": draw(_xyz),
                           "rpy": draw(_rpy), "axis": axis,
                           "lower": draw(st.sampled_from([-2.0, -1.0, -0.3, 0.0])),
                           "upper": draw(st.sampled_from([2.0, 1.0, 0.3, 0.0]))})
    extras = []
    if topology == "extra":
        for k in range(draw(st.integers(1, 3))):
            kind = draw(st.sampled_from(["capsule", "cone", "mesh", "box"]))
            sp = draw(specs(kind, size_lo=0.05, size_hi=0.5, pos_radius=0.5, max_vertices=10))
            extras.append({"frame": "extra%d" % k, "parent": draw(st.integers(0, n - 1)),
                           "spec": sp, "wl": draw(st.sampled_from(["self", "sym-parent", "asym"]))})
    movable = [j for j, jn in enumerate(joints) if jn["type"] != "fixed"]
    op = st.one_of(
        st.fixed_dictionaries({"op": st.just("set_joint"),
                               "j": st.integers(0, max(len(joints) - 1, 0)),
                               "v": st.sampled_from([0.0, 0.5, -0.5, 1.0, -1.0, 2.0, 3.0, 0.25, -0.3])}),
        st.fixed_dictionaries({"op": st.just("query"),
                               "spec": st.one_of(*[specs(k, size_lo=0.05, size_hi=1.0, pos_radius=1.0)
                                                   for k in ("sphere", "box", "capsule")]),
                               "wl": st.integers(0, 3)}),
        st.just({"op": "self"}), st.just({"op": "other"}), st.just({"op": "detect"}),
        st.fixed_dictionaries({"op": st.just("move_extra"), "k": st.integers(0, 2),
                               "R": atoms.rotations(), "p": atoms.positions(0.5)}))
    ops = draw(st.lists(op, min_size=2, max_size=steps))
    ops = [{"op": "set_joint", "j": draw(st.integers(0, 5)), "v": draw(st.sampled_from([0.5, -0.5, 1.0, 2.0]))}] + ops
    ops += [{"op": "self"}, {"op": "detect"}]
    other = [draw(specs(k, size_lo=0.05, size_hi=1.0, pos_radius=1.0))
             for k in draw(st.lists(st.sampled_from(["sphere", "box", "cylinder"]), min_size=0, max_size=3))]
    # declaration order of <link> and <joint> elements is arbitrary in URDF;
    # it determines the iteration order of the colliders
    link_order = draw(st.permutations(list(range(n))))
    joint_order = draw(st.permutations(list(range(len(joints)))))
    return {"links": links, "joints": joints, "extras": extras, "ops": ops, "other": other,
            "link_order": list(link_order), "joint_order": list(joint_order)}


@st.composite
def _star_case(draw, steps):
    """A base link with 2-4 children on different axes: each child touches the
    base but not its siblings, so the only self-collisions are parent-child
    pairs, which the generated whitelists cover asymmetrically (the base
    whitelists its last child only)."""
    k = draw(st.integers(2, 4))
    dirs = draw(st.permutations([[1.0, 0, 0], [-1.0, 0, 0], [0, 1.0, 0], [0, -1.0, 0], [0, 0, 1.0]]))[:k]
    links = [{"geoms": [{"type": "box", "xyz": [0.0, 0.0, 0.0], "rpy": [0.0, 0.0, 0.0], "named": False,
                         "size": [0.3, 0.3, 0.3]}]}]
    joints = []
    for i, d in enumerate(dirs):
        near = draw(st.booleans())
        off = 0.25 if near else 0.6
        links.append({"geoms": [{"type": "sphere", "xyz": [0.0, 0.0, 0.0], "rpy": [0.0, 0.0, 0.0],
                                 "named": draw(st.booleans()), "radius": 0.15}]})
        joints.append({"parent": 0, "child": i + 1, "type": draw(st.sampled_from(["fixed", "revolute"])),
                       "xyz": [off * c for c in d], "rpy": [0.0, 0.0, 0.0], "axis": d,
                       "lower": -1.0, "upper": 1.0})
    ops = [{"op": "set_joint", "j": 0, "v": 0.5}, {"op": "detect"}, {"op": "self"}, {"op": "detect"}]
    n = k + 1
    return {"links": links, "joints": joints, "extras": [], "ops": ops, "other": [],
            "link_order": list(draw(st.permutations(list(range(n))))),
            "joint_order": list(draw(st.permutations(list(range(len(joints))))))}


def strategy(cell):
    return _case(cell["topology"], cell.get("steps", 6))


def urdf_text(case):
    out = ['<?xml version="1.0"?>', '<robot name="gen">']
    for i in case.get("link_order") or range(len(case["links"])):
        l = case["links"][i]
        out.append('<link name="l%d">' % i)
        for gi, g in enumerate(l["geoms"]):
            nm = ' name="g%d"' % gi if g["named"] else ""
            out.append('<collision%s><origin xyz="%r %r %r" rpy="%r %r %r"/><geometry>' % (
                (nm,) + tuple(g["xyz"]) + tuple(g["rpy"])))
            if g["type"] == "sphere":
                out.append('<sphere radius="%r"/>' % g["radius"])
            elif g["type"] == "box":
                out.append('<box size="%r %r %r"/>' % tuple(g["size"]))
            else:
                out.append('<cylinder radius="%r" length="%r"/>' % (g["radius"], g["length"]))
            out.append('</geometry></collision>')
        out.append('</link>')
    for k in case.get("joint_order") or range(len(case["joints"])):
        j = case["joints"][k]
        out.append('<joint name="j%d" type="%s"><parent link="l%d"/><child link="l%d"/>'
                   '<origin xyz="%r %r %r" rpy="%r %r %r"/><axis xyz="%r %r %r"/>'
                   '<limit lower="%r" upper="%r"/></joint>' % (
                       (k, j["type"], j["parent"], j["child"]) + tuple(j["xyz"]) + tuple(j["rpy"])
                       + tuple(j["axis"]) + (min(j["lower"], j["upper"]), max(j["lower"], j["upper"]))))
    out.append('</robot>')
    return "\n".join(out)


def ref_of_frame(info, T):
    """reference shape of a collider at world transform T"""
    s = dict(info)
    R, p = T[:3, :3], T[:3, 3]
    if s["kind"] == "hull":
        raise ValueError
    s["R"] = R.tolist()
    s["p"] = p.tolist()
    if s["kind"] == "sphere":
        s["R"] = np.eye(3).tolist()
    return ref(s)


def boxes_overlap(a, b):
    a, b = np.asarray(a), np.asarray(b)
    return bool(np.all(a[:, 0] <= b[:, 1]) and np.all(a[:, 1] >= b[:, 0]))


def check_case(case, cell):
    from pytransform3d.urdf import UrdfTransformManager
    from distance3d.broad_phase import BoundingVolumeHierarchy
    from distance3d import self_collision
    labels = [cell.get("topology", "replay")]
    fails = []
    tm = UrdfTransformManager()
    try:
        tm.load_urdf(urdf_text(case))
    except Exception as e:   # generator problem, not the library under test
        from ..common import HarnessError
        raise HarnessError("URDF does not load: %r" % (e,))
    bvh = BoundingVolumeHierarchy(tm, "l0")
    r = call_lib(bvh.fill_tree_with_colliders, tm, fill_self_collision_whitelists=True)
    if isinstance(r, LibError):
        return [fail("exception/fill/" + r.type, repr(r))], {"labels": labels, "nontrivial": True}
    # shape info per frame
    info = {}
    for i, l in enumerate(case["links"]):
        for gi, g in enumerate(l["geoms"]):
            frame = "collision:l%d/%s" % (i, ("g%d" % gi) if g["named"] else str(gi))
            d = {"kind": g["type"]}
            for k in ("radius", "length", "size"):
                if k in g:
                    d[k] = g[k]
            info[frame] = d
    if set(info) != set(bvh.colliders_):
        return [fail("frames-differ", "colliders %r vs expected %r" % (sorted(bvh.colliders_), sorted(info)))], {"labels": labels, "nontrivial": True}
    for k, ex in enumerate(case["extras"]):
        sp = dict(ex["spec"])
        T = pose_matrix(sp["R"], sp["p"])
        tm.add_transform(ex["frame"], "l%d" % ex["parent"], T)
        coll = build(dict(sp, R=np.eye(3).tolist(), p=[0.0, 0.0, 0.0]))
        bvh.add_collider(ex["frame"], coll)
        d = {kk: vv for kk, vv in sp.items() if kk not in ("R", "p", "vcls")}
        info[ex["frame"]] = d
        pf = ["collision:l%d/%s" % (ex["parent"], ("g%d" % gi) if g["named"] else str(gi))
              for gi, g in enumerate(case["links"][ex["parent"]]["geoms"])]
        wl = [ex["frame"]]
        if ex["wl"] in ("sym-parent", "asym"):
            wl += pf
        bvh.self_collision_whitelists_[ex["frame"]] = wl
        if ex["wl"] == "sym-parent":
            for f in pf:
                bvh.self_collision_whitelists_[f] = list(bvh.self_collision_whitelists_[f]) + [ex["frame"]]
        labels.append("extra-" + ex["wl"])
    bvh.update_collider_poses()
    moved = False
    hits = 0
    other_bvh = None
    for step, op in enumerate(case["ops"]):
        where = "step %d %s" % (step, op["op"])
        name = op["op"]
        if name == "set_joint":
            if not case["joints"]:
                continue
            j = op["j"] % len(case["joints"])
            if case["joints"][j]["type"] == "fixed":
                continue
            tm.set_joint("j%d" % j, op["v"])
            moved = True
            r = call_lib(bvh.update_collider_poses)
        elif name == "move_extra":
            if not case["extras"]:
                continue
            ex = case["extras"][op["k"] % len(case["extras"])]
            tm.add_transform(ex["frame"], "l%d" % ex["parent"], pose_matrix(op["R"], op["p"]))
            moved = True
            r = call_lib(bvh.update_collider_poses)
        else:
            r = None
        if isinstance(r, LibError):
            fails.append(fail("exception/update/" + r.type, "%s: %r" % (where, r)))
            break
        # (a) poses
        refs = {}
        boxes = {}
        for frame, coll in bvh.colliders_.items():
            T = tm.get_transform(frame, "origin")
            S = ref_of_frame(info[frame], np.asarray(T))
            refs[frame] = S
            for e in np.vstack([np.eye(3), -np.eye(3)]):
                sp = call_lib(coll.support_function, np.ascontiguousarray(e))
                if isinstance(sp, LibError):
                    fails.append(fail("exception/support/" + sp.type, "%s %s: %r" % (where, frame, sp)))
                    break
                if abs(float(e.dot(sp)) - S.h(e)) > 1e-9 * max(1.0, S.feature_size()):
                    fails.append(fail("pose-stale/" + info[frame]["kind"],
                                      "%s: collider %s is not at the transform manager's pose (support along %r: %.9g vs %.9g)" % (
                                          where, frame, e.tolist(), float(e.dot(sp)), S.h(e))))
                    break
            boxes[frame] = np.asarray(coll.aabb(), dtype=float)
        if fails:
            break
        frames = list(bvh.colliders_)
        # (b) broad phase
        if name == "query":
            q = build(op["spec"])
            wl = frames[:op["wl"]] if op["wl"] else []
            got = call_lib(bvh.aabb_overlapping_colliders, q, whitelist=wl)
            if isinstance(got, LibError):
                fails.append(fail("exception/aabb_overlapping_colliders/" + got.type, "%s: %r" % (where, got)))
                break
            qb = np.asarray(q.aabb(), dtype=float)
            exp = {f for f in frames if boxes_overlap(boxes[f], qb) and f not in wl}
            hits += len(exp)
            if set(got) != exp:
                fails.append(fail("broad-phase/query", "%s: got %r, brute force %r" % (where, sorted(got), sorted(exp))))
            elif any(got[f] is not bvh.colliders_[f] for f in got):
                fails.append(fail("broad-phase/wrong-collider", "%s: frame maps to another collider" % where))
        elif name == "self":
            got = call_lib(bvh.aabb_overlapping_with_self)
            if isinstance(got, LibError):
                fails.append(fail("exception/aabb_overlapping_with_self/" + got.type, "%s: %r" % (where, got)))
                break
            gp = sorted((a[0], b[0]) for a, b in got)
            exp = sorted((f, g) for f in frames for g in frames if f != g and boxes_overlap(boxes[f], boxes[g]))
            hits += len(exp)
            if gp != exp:
                fails.append(fail("broad-phase/self", "%s: got %d pairs, brute force %d" % (where, len(gp), len(exp))))
        elif name == "other":
            if other_bvh is None:
                from pytransform3d.transform_manager import TransformManager
                tm2 = TransformManager()
                other_bvh = BoundingVolumeHierarchy(tm2, "base")
                for k, sp in enumerate(case["other"]):
                    T = pose_matrix(sp.get("R", np.eye(3).tolist()), sp["p"])
                    tm2.add_transform("o%d" % k, "base", T)
                    other_bvh.add_collider("o%d" % k, build(sp))
                other_bvh.update_collider_poses()
            got = call_lib(bvh.aabb_overlapping_with_other_bvh, other_bvh)
            if isinstance(got, LibError):
                fails.append(fail("exception/aabb_overlapping_with_other_bvh/" + got.type, "%s: %r" % (where, got)))
                break
            gp = sorted((a[0], b[0]) for a, b in got)
            ob = {f: np.asarray(c.aabb(), dtype=float) for f, c in other_bvh.colliders_.items()}
            exp = sorted((f, g) for f in frames for g in ob if boxes_overlap(boxes[f], ob[g]))
            hits += len(exp)
            if gp != exp:
                fails.append(fail("broad-phase/other", "%s: got %r, brute force %r" % (where, gp, exp)))
        elif name == "detect":
            WL = bvh.self_collision_whitelists_
            marks = call_lib(self_collision.detect, bvh)
            anyc = call_lib(self_collision.detect_any, bvh)
            for x in (marks, anyc):
                if isinstance(x, LibError):
                    fails.append(fail("exception/self_collision/" + x.type, "%s: %r" % (where, x)))
            if fails:
                break
            status = {}
            for i, f in enumerate(frames):
                for g in frames[i + 1:]:
                    L = max(1.0, refs[f].feature_size(), refs[g].feature_size())
                    delta = 1e-3 * L
                    rd = refdist(refs[f], refs[g], scale=L)
                    if rd["lower"] > delta:
                        s = "sep"
                    elif rd["upper"] <= 1e-9 * L and pd_lower(
                            refs[f], refs[g], dirs=[refs[g].center() - refs[f].center(),
                                                    refs[f].center() - refs[g].center()]) > delta:
                        s = "col"
                    else:
                        s = "unclear"
                    status[(f, g)] = status[(g, f)] = s
            unclear = {f for (f, g), s in status.items() if s == "unclear"}
            any_must = False
            all_clear_sep = True
            for f in frames:
                must = any(status[(f, g)] == "col" and g not in WL[f] for g in frames if g != f)
                if must:
                    any_must = True
                    hits += 1
                if any(status[(f, g)] != "sep" and g not in WL[f] for g in frames if g != f):
                    all_clear_sep = False
                if must and not marks.get(f, False):
                    fails.append(fail("self-collision/missed",
                                      "%s: %s clearly collides with a frame outside its whitelist but is not marked" % (where, f)))
                may = any(status[(f, g)] != "sep" and (g not in WL[f] or f not in WL[g]) for g in frames if g != f)
                if marks.get(f, False) and not may:
                    fails.append(fail("self-collision/spurious",
                                      "%s: %s is marked but every non-whitelisted pair is clearly separated" % (where, f)))
            if any_must and not anyc:
                fails.append(fail("self-collision/detect-any-missed", "%s: detect_any False although a clear collision exists" % where))
            if all_clear_sep and anyc:
                fails.append(fail("self-collision/detect-any-spurious", "%s: detect_any True although all pairs outside the whitelists are clearly separated" % where))
            if set(marks) != set(frames):
                fails.append(fail("self-collision/keys", "%s: result keys differ from collider frames" % where))
            labels.append("detect")
        if fails:
            break
    return fails, {"labels": sorted(set(labels)), "nontrivial": bool(moved and hits > 0),
                   "counters": {"broad_phase_or_collision_hits": hits}}


def match_known(f, case, known):
    return None
