"""Shared machinery of C10 / C11: the 34 functions of distance3d.distance."""
import math

import numpy as np
from hypothesis import strategies as st

from ..common import fail, call_lib, LibError, finite
from ..gen import atoms
from ..gen.colliders import pose_matrix
from ..ref.primitives import refprim, unbounded_pair_distance, circle_distance
from ..ref.refdist import refdist
from ..ref.shapes import Point

# name -> (kind1, kind2)
FUNCTIONS = {
    "point_to_line": ("point", "line"), "point_to_line_segment": ("point", "segment"),
    "point_to_plane": ("point", "plane"), "point_to_triangle": ("point", "triangle"),
    "point_to_rectangle": ("point", "rectangle"), "point_to_disk": ("point", "disk"),
    "point_to_circle": ("point", "circle"), "point_to_box": ("point", "box"),
    "point_to_ellipsoid": ("point", "ellipsoid"), "point_to_cylinder": ("point", "cylinder"),
    "line_to_line": ("line", "line"), "line_to_line_segment": ("line", "segment"),
    "line_to_plane": ("line", "plane"), "line_to_triangle": ("line", "triangle"),
    "line_to_rectangle": ("line", "rectangle"), "line_to_circle": ("line", "circle"),
    "line_to_box": ("line", "box"),
    "line_segment_to_line_segment": ("segment", "segment"),
    "line_segment_to_plane": ("segment", "plane"),
    "line_segment_to_triangle": ("segment", "triangle"),
    "line_segment_to_rectangle": ("segment", "rectangle"),
    "line_segment_to_circle": ("segment", "circle"), "line_segment_to_box": ("segment", "box"),
    "plane_to_plane": ("plane", "plane"), "plane_to_triangle": ("plane", "triangle"),
    "plane_to_rectangle": ("plane", "rectangle"), "plane_to_box": ("plane", "box"),
    "plane_to_ellipsoid": ("plane", "ellipsoid"), "plane_to_cylinder": ("plane", "cylinder"),
    "triangle_to_triangle": ("triangle", "triangle"),
    "triangle_to_rectangle": ("triangle", "rectangle"),
    "rectangle_to_rectangle": ("rectangle", "rectangle"),
    "rectangle_to_box": ("rectangle", "box"), "disk_to_disk": ("disk", "disk"),
}
# functions whose parallel / perpendicular decisions are controlled by a
# documented epsilon argument (C11 is not asserted inside the band)
EPSILON_FUNCTIONS = {
    "point_to_circle", "line_to_line", "line_to_line_segment", "line_to_plane",
    "line_to_triangle", "line_to_rectangle", "line_segment_to_line_segment",
    "line_segment_to_plane", "line_segment_to_triangle", "line_segment_to_rectangle",
    "plane_to_plane", "triangle_to_triangle", "rectangle_to_rectangle",
    "rectangle_to_box", "disk_to_disk", "triangle_to_rectangle",
}
SIZE_LO, SIZE_HI = 0.2, 100.0


def _c(x):
    return np.ascontiguousarray(np.array(x, dtype=float))


def args_of(spec):
    k = spec["kind"]
    if k == "point":
        return [_c(spec["x"])]
    if k == "line":
        return [_c(spec["p"]), _c(spec["d"])]
    if k == "segment":
        return [_c(spec["a"]), _c(spec["b"])]
    if k == "plane":
        return [_c(spec["p"]), _c(spec["n"])]
    if k == "triangle":
        return [_c(spec["V"])]
    if k == "rectangle":
        R = np.array(spec["R"], dtype=float)
        return [_c(spec["c"]), _c(R[:, :2].T), _c(spec["lengths"])]
    if k in ("circle", "disk"):
        R = np.array(spec["R"], dtype=float)
        return [_c(spec["c"]), float(spec["radius"]), _c(R[:, 2])]
    if k == "box":
        return [pose_matrix(spec["R"], spec["p"]), _c(spec["size"])]
    if k == "ellipsoid":
        return [pose_matrix(spec["R"], spec["p"]), _c(spec["radii"])]
    if k == "cylinder":
        return [pose_matrix(spec["R"], spec["p"]), float(spec["radius"]), float(spec["length"])]
    raise ValueError(k)


# ------------------------------------------------------------- generation

@st.composite
def prim_spec(draw, kind, lattice=False):
    if lattice:
        R = np.array(draw(atoms.rot_signed_perm))
        c = np.array(draw(atoms.pos_lattice)) * 0.5
        sz = st.sampled_from([1.0, 2.0, 0.5, 4.0])
    else:
        R = np.array(draw(atoms.rotations()))
        c = np.array(draw(atoms.positions(10.0)))
        sz = atoms.sizes(SIZE_LO, SIZE_HI)
    s = {"kind": kind}
    if kind == "point":
        s["x"] = c.tolist()
    elif kind == "line":
        s["p"] = c.tolist()
        s["d"] = R[:, 2].tolist()
    elif kind == "segment":
        l = draw(sz)
        s["a"] = (c - 0.5 * l * R[:, 2]).tolist()
        s["b"] = (c + 0.5 * l * R[:, 2]).tolist()
    elif kind == "plane":
        s["p"] = c.tolist()
        s["n"] = R[:, 2].tolist()
    elif kind == "triangle":
        a = draw(sz)
        b = draw(sz)
        shape = draw(st.sampled_from(["right", "iso", "skew", "thin"]))
        if shape == "right":
            L = [[0, 0], [a, 0], [0, b]]
        elif shape == "iso":
            L = [[-a / 2, 0], [a / 2, 0], [0, b]]
        elif shape == "skew":
            L = [[0, 0], [a, 0], [a + 0.5 * b, b]]
        else:
            L = [[0, 0], [a, 0], [0.3 * a, max(0.02 * a, 0.2)]]
        L = np.array(L, dtype=float)
        L -= L.mean(axis=0)
        V = c[None, :] + L[:, :1] * R[:, 0][None, :] + L[:, 1:] * R[:, 1][None, :]
        s["V"] = V.tolist()
    elif kind == "rectangle":
        s["c"] = c.tolist()
        s["R"] = R.tolist()
        s["lengths"] = [draw(sz), draw(sz)]
    elif kind in ("circle", "disk"):
        s["c"] = c.tolist()
        s["R"] = R.tolist()
        s["radius"] = draw(sz)
    elif kind == "box":
        s["R"] = R.tolist()
        s["p"] = c.tolist()
        s["size"] = [draw(sz), draw(sz), draw(sz)]
    elif kind == "ellipsoid":
        s["R"] = R.tolist()
        s["p"] = c.tolist()
        s["radii"] = [draw(sz), draw(sz), draw(sz)]
    elif kind == "cylinder":
        s["R"] = R.tolist()
        s["p"] = c.tolist()
        s["radius"] = draw(sz)
        s["length"] = draw(sz)
    return s


def move(spec, t):
    t = np.asarray(t, dtype=float)
    s = dict(spec)
    for key in ("x", "p", "a", "b", "c"):
        if key in s:
            s[key] = (np.array(s[key], dtype=float) + t).tolist()
    if "V" in s:
        s["V"] = (np.array(s["V"], dtype=float) + t).tolist()
    return s


GAPS = [0.0, 1e-9, 1e-6, 1e-3, 0.1, 1.0]


@st.composite
def pair_case(draw, fname, family):
    k1, k2 = FUNCTIONS[fname]
    lattice = family == "lattice"
    s1 = draw(prim_spec(k1, lattice))
    s2 = draw(prim_spec(k2, lattice))
    labels = [family]
    if family == "planar":
        # both primitives axis-aligned up to ONE generic rotation about a
        # coordinate axis: feature directions with exactly one zero component
        # in the other primitive's frame (e.g. a line parallel to one pair of
        # box faces only)
        P1 = np.array(draw(atoms.rot_signed_perm))
        P2 = np.array(draw(atoms.rot_signed_perm))
        th = draw(st.floats(0.05, 1.5, allow_nan=False, width=64))
        Rk = atoms.axis_angle(draw(st.integers(0, 2)), th)
        which = draw(st.integers(0, 1))
        s1 = _with_rotation(s1, P1.dot(Rk) if which == 0 else P1)
        s2 = _with_rotation(s2, P2 if which == 0 else P2.dot(Rk))
        family = draw(st.sampled_from(["free", "inside", "touch"]))
        labels.append("as:" + family)
    if family == "shared" or (family in ("touch", "inside") and draw(st.booleans())):
        # second primitive gets the first one's rotation times a signed
        # permutation: exactly parallel / perpendicular / coplanar features
        R1 = _rotation_of(s1)
        if R1 is not None:
            P = np.array(draw(atoms.rot_signed_perm))
            s2 = _with_rotation(s2, R1.dot(P))
            labels.append("shared-rot")
    P1, P2 = refprim(s1), refprim(s2)
    if family in ("free", "shared"):
        u = atoms.unit(draw(atoms.dir_random))
        f = draw(st.sampled_from([0.0, 0.3, 0.8, 1.0, 1.5, 3.0]))
        r = f * (P1.radius() + P2.radius() + 1.0)
        s2 = move(s2, P1.center() + r * u - P2.center())
        labels.append("f:%g" % f)
    elif family == "inside":
        # centres coincide (contained / crossing / coincident placements)
        off = np.array(draw(st.sampled_from([[0, 0, 0], [0.1, 0, 0], [0, 0.05, 0.05]])), dtype=float)
        s2 = move(s2, P1.center() + off * max(P1.radius(), 0.2) - P2.center())
        if k1 == k2 and draw(st.integers(0, 3)) == 0:
            s2 = dict(s1)
            labels.append("coincident")
    elif family == "touch":
        A = P1.convex_shape(P2.center(), P2.radius())
        B = P2.convex_shape(P1.center(), P1.radius())
        if A is not None and B is not None and P1.bounded and P2.bounded:
            R1 = _rotation_of(s1)
            n = atoms.unit(draw(atoms.directions_for(R1 if R1 is not None else np.eye(3))))
            w = draw(st.lists(st.sampled_from([0.0, 1.0, 0.5]), min_size=8, max_size=8))
            fa = _combo(A.support_set(n), w)
            fb = _combo(B.support_set(-n), w[::-1])
            g = draw(st.sampled_from(GAPS)) * max(1.0, P1.size(), P2.size())
            s2 = move(s2, fa + g * n - fb)
            labels.append("gap:%g" % g)
        else:
            # unbounded partner: put the anchor at distance g along its normal
            u = atoms.unit(draw(atoms.dir_random))
            s2 = move(s2, P1.center() + (P1.radius() + P2.radius()) * u - P2.center())
    off = draw(atoms.far_offsets(800.0))
    if any(off):
        s1 = move(s1, off)
        s2 = move(s2, off)
        labels.append("far")
    return {"fn": fname, "p1": s1, "p2": s2, "labels": labels}


def _combo(points, weights):
    w = np.array(weights[:len(points)], dtype=float) + 1e-3
    w = w / w.sum()
    return w.dot(np.array(points))


def _rotation_of(s):
    if "R" in s:
        return np.array(s["R"], dtype=float)
    if s["kind"] in ("line", "plane"):
        n = np.array(s["d"] if s["kind"] == "line" else s["n"], dtype=float)
        from ..ref.primitives import _basis
        u, v = _basis(n)
        return np.column_stack([u, v, n])
    return None


def _with_rotation(s, R):
    """re-orient primitive s (about its centre) to rotation R"""
    s = dict(s)
    k = s["kind"]
    if "R" in s:
        s["R"] = R.tolist()
    elif k == "line":
        s["d"] = R[:, 2].tolist()
    elif k == "plane":
        s["n"] = R[:, 2].tolist()
    elif k == "triangle":
        V = np.array(s["V"], dtype=float)
        c = V.mean(axis=0)
        # express the triangle in the new frame: keep its in-plane shape
        e0 = V[1] - V[0]
        n = np.cross(e0, V[2] - V[0])
        u = e0 / np.linalg.norm(e0)
        w = n / np.linalg.norm(n)
        v = np.cross(w, u)
        L = (V - c).dot(np.column_stack([u, v, w]))
        s["V"] = (c + L.dot(R.T)).tolist()
    elif k == "segment":
        a, b = np.array(s["a"]), np.array(s["b"])
        c, l = 0.5 * (a + b), np.linalg.norm(b - a)
        s["a"] = (c - 0.5 * l * R[:, 2]).tolist()
        s["b"] = (c + 0.5 * l * R[:, 2]).tolist()
    return s


# ------------------------------------------------------------- evaluation

def call_function(fname, s1, s2):
    from distance3d import distance as D
    fn = getattr(D, fname)
    return call_lib(fn, *(args_of(s1) + args_of(s2)))


def band_status(fname, P1, P2):
    """'clear' if every pair of feature directions is exactly parallel
    (|sin| <= 1e-12), exactly perpendicular (|cos| <= 1e-12), or at least
    1e-2 away (in 1-|cos| resp. |cos|) from both decisions."""
    worst = "clear"
    cos_list = []
    f1s = list(P1.features())
    f2s = list(P2.features())
    if fname == "point_to_circle":
        # the epsilon-controlled decision: point on the circle's axis, taken
        # on the ABSOLUTE squared in-plane offset (default epsilon 1e-6)
        w = P1.x - P2.c
        l = P2.R.T.dot(w)
        off2 = float(l[0] * l[0] + l[1] * l[1])
        if 1e-24 < off2 < 4e-6:
            return "in-band", [off2]
        return "clear", [off2]
    for t1, f1 in f1s:
        for t2, f2 in f2s:
            c = abs(float(np.dot(f1, f2)))
            sn = float(np.linalg.norm(np.cross(f1, f2)))
            cos_list.append(c)
            if (sn > 1e-12 and 1.0 - c < 1e-2) or (c > 1e-12 and c < 1e-2):
                worst = "in-band"
    return worst, cos_list


def scale_L(P1, P2):
    return max(1.0, P1.size(), P2.size(), float(np.linalg.norm(P1.center() - P2.center())))


def true_distance(P1, P2, L):
    """(lo, hi, a, b, how): certified interval of the minimum distance, with
    witness points for hi when available."""
    if not P1.bounded and not P2.bounded:
        d = unbounded_pair_distance(P1, P2)
        return d, d, None, None, "closed-form"
    if P1.kind == "circle" or P2.kind == "circle":
        C, O = (P1, P2) if P1.kind == "circle" else (P2, P1)
        d, x = circle_distance(C, O)
        return None, d, (x if C is P1 else None), (x if C is P2 else None), "1-D search"
    A = P1.convex_shape(P2.center(), P2.radius())
    B = P2.convex_shape(P1.center(), P1.radius())
    r = refdist(A, B, scale=L)
    return r["lower"], r["upper"], r["a"], r["b"], "refdist"


def evaluate(case):
    """Returns (fails10, fails11, info)."""
    fname = case["fn"]
    s1, s2 = case["p1"], case["p2"]
    P1, P2 = refprim(s1), refprim(s2)
    L = scale_L(P1, P2)
    tolp, told = 1e-9 * L, 1e-6 * L
    res = call_function(fname, s1, s2)
    f10, f11 = [], []
    labels = list(case.get("labels", ())) + [fname]
    band, cosines = band_status(fname, P1, P2)
    info = {"labels": labels, "nontrivial": case["labels"][0] != "free" or "f:0" in case["labels"]}
    if isinstance(res, LibError):
        f10.append(fail("exception/%s/%s" % (fname, res.type), "%s raised %r" % (fname, res)))
        return f10, f11, info
    if P1.kind == "point":
        d, p2 = res[0], res[1]
        p1 = np.array(s1["x"], dtype=float)
    else:
        d, p1, p2 = res[0], res[1], res[2]
    if not finite(d, p1, p2):
        f10.append(fail("nonfinite/" + fname, "%s returned d=%r p1=%r p2=%r" % (fname, d, p1, p2)))
        return f10, f11, info
    d = float(d)
    p1 = np.asarray(p1, dtype=float)
    p2 = np.asarray(p2, dtype=float)
    if d < 0:
        f10.append(fail("negative/" + fname, "d=%r" % d))
    # conditioning: the intersection of two features that are nearly but not
    # exactly parallel (|sin| = s in (0, 1e-2)) cannot be located better than
    # eps * |coordinates| / s in float64, whatever the algorithm
    smin = None
    for _t1, f1 in P1.features():
        for _t2, f2 in P2.features():
            sn = float(np.linalg.norm(np.cross(f1, f2)))
            if 1e-12 < sn < 1e-2 and (smin is None or sn < smin):
                smin = sn
    if smin is not None:
        reach = L + float(np.linalg.norm(P1.center())) + float(np.linalg.norm(P2.center()))
        tolp = tolp + 32.0 * np.finfo(float).eps * reach / smin
        labels.append("ill-conditioned")
    r1, r2 = P1.resid(p1), P2.resid(p2)
    if r1 > tolp:
        f10.append(fail("off-primitive-1/" + fname,
                        "first closest point is %.3g off its %s (tol %.3g)" % (r1, P1.kind, tolp), resid=r1, L=L))
    if r2 > tolp:
        f10.append(fail("off-primitive-2/" + fname,
                        "second closest point is %.3g off its %s (tol %.3g)" % (r2, P2.kind, tolp), resid=r2, L=L))
    pd = float(np.linalg.norm(p1 - p2))
    if abs(pd - d) > told:
        f10.append(fail("inconsistent/" + fname,
                        "|p1-p2| = %.9g but d = %.9g (tol %.3g)" % (pd, d, told), diff=abs(pd - d), L=L))
    # C11: global minimum
    if fname in EPSILON_FUNCTIONS and band != "clear":
        labels.append("epsilon-band")
        info["counters"] = {"excluded_epsilon_band": 1}
    else:
        lo, hi, a, b, how = true_distance(P1, P2, L)
        tol11 = 5e-3 * L if fname == "line_to_circle" else told
        # constructed gaps can equal the tolerance (gap 1e-6 with L = 1): the
        # comparison must not be decided by the rounding of far coordinates
        tol11 = tol11 * (1.0 + 1e-6) + 1e-12 * max(L, float(np.linalg.norm(P1.center())),
                                                   float(np.linalg.norm(P2.center())))
        labels.append("truth:" + how)
        if d > hi + tol11:
            f11.append(fail("not-minimal/" + fname,
                            "d = %.9g but a pair of points at distance %.9g exists (%s, tol %.3g)" % (d, hi, how, tol11),
                            witness_a=a, witness_b=b, d=d, hi=hi, L=L))
        if lo is not None and d < lo - tol11 and not f10:
            f11.append(fail("below-lower-bound/" + fname,
                            "d = %.9g but a separating plane proves >= %.9g" % (d, lo), d=d, lo=lo, L=L))
    return f10, f11, info
