"""C03 - support mappings: belongs to the set and is extreme; first_vertex,
center belong; mesh answers do not depend on earlier queries."""
import numpy as np
from hypothesis import strategies as st

from ..common import fail, call_lib, LibError, finite
from ..gen import atoms
from ..gen.colliders import KINDS, specs, build
from ..ref.shapes import ref

RULE = ("Hypothesis: collider spec (all ten kinds, Margin with prob 1/4, "
        "sizes log-uniform in [1e-2,1e2], rotations identity/signed "
        "permutation/special angle/near-aligned/random/composed, positions "
        "up to 1e3) x a sequence of 1-6 directions queried on the SAME "
        "object (axis, zero-component, shape-axis, tilted by 1e-12..1e-3, "
        "random, un-normalised). Oracle: closed-form support value and "
        "signed-distance lower bound of the reference shape; mesh: brute "
        "force max and a fresh object. Non-trivial: a direction with a zero "
        "component in world or shape frame or within 1e-3 of parallel/"
        "orthogonal to a shape axis, or a mesh query after an earlier "
        "query. Distinct by hash of (spec, directions).")
ASSUMPTIONS = ["tolerance 1e-9*L with L = max(1, feature size)",
               "extremality compared on the projection value (ties are legitimate), normalised by |d|"]
N = {"quick": 400, "thorough": 20000}


def cells(tier):
    return [{"name": k, "kind": k, "n": N[tier]} for k in KINDS]


@st.composite
def _case(draw, kind):
    spec = draw(specs(kind, margin=True, pos_radius=10.0))
    off = draw(atoms.far_offsets())
    if any(off):
        from ..gen.colliders import translate
        spec = translate(spec, off)
    R = spec.get("R", np.eye(3).tolist())
    dirs = draw(st.lists(atoms.directions_for(R), min_size=1, max_size=6))
    return {"spec": spec, "dirs": dirs}


def strategy(cell):
    return _case(cell["kind"])


def _special(d, R):
    d = np.asarray(d, dtype=float)
    n = np.linalg.norm(d)
    l = np.asarray(R).T.dot(d)
    for v in (d, l):
        a = np.abs(v) / n
        if np.any(a <= 1e-3) or np.any(a >= 1 - 1e-6):
            return True
    return False


def check_case(case, cell):
    spec = case["spec"]
    S = ref(spec)
    L = max(1.0, S.feature_size())
    tol = 1e-9 * L
    obj = build(spec)
    kind = spec["kind"]
    tag = kind + ("+m" if spec.get("margin") else "")
    fails = []
    labels = [kind, "rot:" + atoms.rotation_class(spec.get("R", np.eye(3)))]
    if spec.get("margin"):
        labels.append("margin")
    if np.linalg.norm(S.center()) > 50:
        labels.append("far")
    nontrivial = False
    R = spec.get("R", np.eye(3).tolist())
    for name in ("first_vertex", "center"):
        x = call_lib(getattr(obj, name))
        if isinstance(x, LibError):
            fails.append(fail("exception/%s/%s" % (x.type, x.frame), "%s: %r" % (name, x)))
            continue
        if not finite(x):
            fails.append(fail("nonfinite/%s/%s" % (name, tag), "%s not finite" % name))
            continue
        sd = S.sdist(np.asarray(x, dtype=float))[0]
        if sd > tol:
            fails.append(fail("%s-outside/%s" % (name, tag),
                              "%s() is %.3g outside the set (tol %.3g)" % (name, sd, tol)))
    for i, d in enumerate(case["dirs"]):
        d = np.ascontiguousarray(np.array(d, dtype=float))
        dn = float(np.linalg.norm(d))
        x = call_lib(obj.support_function, d.copy())
        if isinstance(x, LibError):
            fails.append(fail("exception/%s/%s" % (x.type, x.frame), "support(%r): %r" % (d.tolist(), x)))
            break
        x = np.asarray(x, dtype=float)
        if not finite(x):
            fails.append(fail("nonfinite/support/" + tag, "support(%r) = %r" % (d.tolist(), x)))
            break
        if _special(d, R):
            nontrivial = True
            labels.append("special-dir")
        if kind == "mesh" and i > 0:
            nontrivial = True
            labels.append("mesh-history")
        sd = S.sdist(x)[0]
        if sd > tol:
            fails.append(fail("support-outside/" + tag,
                              "support point is %.3g outside the set (tol %.3g), d=%r" % (sd, tol, d.tolist())))
        short = (S.h(d) - float(d.dot(x))) / dn
        if short > tol:
            fails.append(fail("not-extreme/" + tag,
                              "support point projects %.3g below the maximum (tol %.3g), d=%r, query #%d"
                              % (short, tol, d.tolist(), i), witness=S.support(d)))
        if kind == "mesh":
            fresh = build(spec)
            y = np.asarray(fresh.support_function(d.copy()), dtype=float)
            if abs(float(d.dot(x)) - float(d.dot(y))) / dn > tol:
                fails.append(fail("mesh-history-dependence/" + tag,
                                  "cached start vertex changes the answer by %.3g"
                                  % (abs(float(d.dot(x)) - float(d.dot(y))) / dn)))
        if fails:
            break
    return fails, {"labels": sorted(set(labels)), "nontrivial": nontrivial}


def match_known(f, case, known):
    return None
