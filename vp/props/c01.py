"""C01 - GJK distance query: feasible, consistent, optimal (DESIGN §6 C01)."""
import math

import numpy as np

from ..common import fail, call_lib, LibError, finite
from ..gen import scenes as S
from ..gen.colliders import KINDS, build, label

RULE = ("Hypothesis scenes over all 100 ordered collider-kind pairs (Margin on "
        "either side with prob 1/4) in families free/gap/deep/aligned (+far "
        "offset); truth from construction witness (separating plane + two "
        "points / common interior point) or certified reference GJK. "
        "Non-trivial: constructed gap/deep/aligned scene, or a free scene "
        "whose certified distance is below the larger feature size. Distinct "
        "by hash of the full scene spec.")
ASSUMPTIONS = ["tolerance 1e-5*L, L = max(1, feature sizes, centre distance) from specs",
               "violations need an independent witness (closer pair / separating plane / sdist lower bound)"]
SQRT_CLIP = math.sqrt(100000.0)

GROUPS = {"gf": ["gap", "free"], "da": ["deep", "aligned"]}
N = {"quick": 25, "thorough": 1500}


def cells(tier):
    out = []
    for a in KINDS:
        for b in KINDS:
            for g in GROUPS:
                out.append({"name": "%s-%s-%s" % (a, b, g), "A": a, "B": b,
                            "group": g, "n": N[tier]})
    return out


def strategy(cell):
    return S.scenes(cell["A"], cell["B"], families=GROUPS[cell["group"]],
                    margin=True)


def pair_tag(case):
    def t(s):
        return s["kind"] + ("+m" if s.get("margin") else "")
    return "%s-%s" % (t(case["A"]), t(case["B"]))


def scene_labels(case, tr):
    labs = list(case.get("labels", ()))
    labs.append("truth:" + tr["source"])
    if case["A"].get("margin") or case["B"].get("margin"):
        labs.append("margin")
    if tr["overlap_depth"] > 0:
        labs.append("overlap-certified")
    elif tr["hi"] == 0:
        labs.append("touching-or-flat-overlap")
    return labs


def nontrivial(case, tr):
    if case["family"] != "free":
        return True
    fs = max(tr["A"].feature_size(), tr["B"].feature_size())
    return tr["hi"] < fs


def check_distance_result(res, tr, tol, tag, prefix="", need_points=True, exact_zero=True):
    """Clauses 1-5 for a (d, a, b) answer against truth tr."""
    fails = []
    d, a, b = res[0], res[1], res[2]
    if not finite(d) or (need_points and not finite(a, b)):
        return [fail(prefix + "nonfinite/" + tag, "non-finite output d=%r a=%r b=%r" % (d, a, b))]
    A, B = tr["A"], tr["B"]
    if need_points:
        sa = A.sdist(a)[0]
        sb = B.sdist(b)[0]
        if sa > tol:
            fails.append(fail(prefix + "membership-A/" + tag,
                              "a is %.3g outside A (tol %.3g)" % (sa, tol), sdist=sa))
        if sb > tol:
            fails.append(fail(prefix + "membership-B/" + tag,
                              "b is %.3g outside B (tol %.3g)" % (sb, tol), sdist=sb))
        ab = float(np.linalg.norm(np.asarray(a) - np.asarray(b)))
        if abs(ab - d) > tol:
            fails.append(fail(prefix + "consistency/" + tag,
                              "|a-b|=%.9g but d=%.9g" % (ab, d)))
    if d > tr["hi"] + tol:
        fails.append(fail(prefix + "too-long/" + tag,
                          "d=%.9g but reference points are at %.9g (tol %.3g)" % (d, tr["hi"], tol),
                          ref_a=tr["a"], ref_b=tr["b"]))
    if d < tr["lo"] - tol:
        fails.append(fail(prefix + "too-short/" + tag,
                          "d=%.9g but a separating plane proves >= %.9g" % (d, tr["lo"]),
                          n=tr["n"]))
    if exact_zero and tr["overlap_depth"] > tol and d != 0.0:
        fails.append(fail(prefix + "overlap-nonzero/" + tag,
                          "sets share a point %.3g inside both but d=%.3g" % (tr["overlap_depth"], d)))
    if exact_zero and tr["lo"] > tol and not d > 0.0:
        fails.append(fail(prefix + "separated-zero/" + tag, "gap >= %.3g but d=0" % tr["lo"]))
    return fails


def check_case(case, cell):
    from distance3d import gjk
    from distance3d.utils import MAX_FLOAT
    tr = S.truth(case)
    L = tr["L"]
    tol = 1e-5 * L
    tag = pair_tag(case)
    A = build(case["A"])
    B = build(case["B"])
    fails = []
    undecided = 0
    labs = scene_labels(case, tr)
    res = call_lib(gjk.gjk_distance_jolt, A, B)
    if isinstance(res, LibError):
        fails.append(fail("exception/%s/%s" % (res.type, res.frame), repr(res)))
    elif res[0] == MAX_FLOAT and res[1] is None:
        labs.append("clipped")
        if tr["hi"] < SQRT_CLIP - tol:
            fails.append(fail("clip-wrong/" + tag, "clipped but distance <= %.6g" % tr["hi"]))
        elif tr["lo"] < SQRT_CLIP:
            undecided += 1
    else:
        fails += check_distance_result(res, tr, tol, tag)
    if tr["lo"] > SQRT_CLIP * 0.9:
        labs.append("beyond-or-near-clip")
        res2 = call_lib(gjk.gjk_distance_jolt, A, B, max_distance_squared=float("inf"))
        if isinstance(res2, LibError):
            fails.append(fail("exception/%s/%s" % (res2.type, res2.frame), repr(res2)))
        else:
            fails += check_distance_result(res2, tr, tol, tag, prefix="noclip-")
    info = {"labels": labs, "nontrivial": nontrivial(case, tr), "undecided": undecided,
            "maxima": {"max_ref_gap_over_L": (tr["hi"] - tr["lo"]) / L}}
    return fails, info


def match_known(f, case, known):
    return None
