"""C08 - MPR penetration result separates the pair; contact point shared."""
import numpy as np

from ..common import fail, call_lib, LibError, finite
from ..gen import scenes as S
from ..gen.colliders import KINDS, build, translate
from ..ref.shapes import ref
from ..ref.refdist import refdist
from ..ref.penetration import pd_bounds
from .narrow import pair_tag, exc_fail

RULE = ("Hypothesis overlapping scenes over all 100 ordered pairs (Margin "
        "prob 1/4): deep (common point of guaranteed depth; inner / centre-"
        "coincident / identical / shared rotation) and aligned lattice "
        "scenes. mpr_penetration with defaults. Oracle (band 2e-3*L): depth "
        ">= 0; |u| = 1 or (u = 0 and depth = 0); B translated by depth*u has "
        "residual penetration <= band (violation needs a lower-bound witness: "
        "exact qhull PD for polytopes, a ball inside both shapes otherwise); "
        "depth >= PD - band with PD exact or witness lower bound; contact "
        "position within band of both shapes. Non-trivial: certified PD >= "
        "10*band or a centre-coincident/identical scene.")
ASSUMPTIONS = ["band 2e-3*L (portal tolerance); intersection=False on a deep scene is C02's clause and only counted here"]
N = {"quick": 30, "thorough": 1200}


def cells(tier):
    out = []
    for a in KINDS:
        for b in KINDS:
            out.append({"name": "%s-%s" % (a, b), "A": a, "B": b, "n": N[tier]})
    return out


def strategy(cell):
    # overlapping scenes plus exactly touching ones (gap factor 0), where MPR
    # reports an intersection of depth ~0 and the direction clause matters
    return S.scenes(cell["A"], cell["B"], families=["deep", "deep", "aligned", "gap"], margin=True,
                    gaps=[0.0])


def check_case(case, cell):
    from distance3d import mpr
    tr = S.truth(case)
    L = tr["L"]
    band = 2e-3 * L
    tag = pair_tag(case)
    labels = list(case.get("labels", ()))
    Aref, Bref = tr["A"], tr["B"]
    if tr["hi"] > 1e-12 * L:
        return [], {"labels": labels + ["separated"], "nontrivial": False}
    A = build(case["A"])
    B = build(case["B"])
    r = call_lib(mpr.mpr_penetration, A, B)
    if isinstance(r, LibError):
        return [exc_fail(r, "mpr_penetration")], {"labels": labels, "nontrivial": True}
    inter, depth, u, pos = r
    pd_lo, pd_hi, exact = pd_bounds(Aref, Bref)
    pd_lo = max(pd_lo, 2.0 * tr["overlap_depth"] if not (Aref.flat or Bref.flat) else 0.0)
    labels.append("pd-exact" if exact else "pd-bounds")
    fails = []
    if not inter:
        labels.append("mpr-says-no")
        return [], {"labels": labels, "nontrivial": False,
                    "counters": {"not_intersecting_reported": 1}}
    if not finite(depth, u, pos):
        only_pos = bool(finite(depth, u) and np.all(np.isnan(np.asarray(pos, dtype=float))))
        return [fail("nonfinite/" + tag, "depth=%r u=%r pos=%r" % (depth, u, pos),
                     only_contact_nan=only_pos)], {"labels": labels, "nontrivial": True}
    u = np.asarray(u, dtype=float)
    pos = np.asarray(pos, dtype=float)
    nu = float(np.linalg.norm(u))
    if depth < 0:
        fails.append(fail("negative-depth/" + tag, "depth=%r" % depth))
    if not (abs(nu - 1.0) <= 1e-9 or (nu == 0.0 and depth <= 1e-9 * L)):
        fails.append(fail("direction-norm/" + tag, "|u|=%r with depth=%r" % (nu, depth)))
    # depth not smaller than the true penetration depth (minus band)
    if depth < pd_lo - band:
        fails.append(fail("depth-too-small/" + tag,
                          "depth %.6g < certified penetration depth %.6g - band %.3g (%s)" % (
                              depth, pd_lo, band, "exact" if exact else "ball witness")))
    # separation after translating B by depth*u
    if nu > 0:
        sb2 = translate(case["B"], depth * u)
        B2 = ref(sb2)
        rlo, rhi, rex = pd_bounds(Aref, B2, dirs=[u])
        if rlo > band:
            fails.append(fail("residual-overlap/" + tag,
                              "after translating by depth*u (depth %.6g) the pair still penetrates by >= %.6g (band %.3g)" % (
                                  depth, rlo, band)))
    # contact position in both colliders
    sa = Aref.sdist(pos)[0]
    sb = Bref.sdist(pos)[0]
    if sa > band or sb > band:
        a_pt = pos + 0.5 * depth * u
        b_pt = pos - 0.5 * depth * u
        model = bool(Aref.sdist(a_pt)[0] <= band and Bref.sdist(b_pt)[0] <= band)
        if not model:
            # the general form of the same model: pos = (a + b) / 2 for SOME
            # a in A, b in B (libccd weights the support points of the portal
            # vertices; a - b is the portal point on the origin ray, not
            # necessarily depth*u), i.e. A meets B reflected through pos
            refl = _reflect(case["B"], pos)
            if refl is not None:
                model = bool(refdist(Aref, ref(refl), scale=L)["lower"] <= band)
        fails.append(fail("contact-outside/" + tag,
                          "contact position is %.3g outside A / %.3g outside B (band %.3g)" % (sa, sb, band),
                          midpoint_model=model, depth=depth, outside=max(sa, sb), pd_hi=pd_hi))
    nt = pd_lo >= 10 * band or any(l in ("mode:centre", "mode:identical") for l in labels)
    return fails, {"labels": labels, "nontrivial": bool(nt)}


def _reflect(spec, c):
    """spec of the shape { 2c - x : x in shape } (point reflection), or None"""
    c = np.asarray(c, dtype=float)
    s = dict(spec)
    k = spec["kind"]
    if k == "hull":
        s["vertices"] = (2.0 * c - np.asarray(spec["vertices"], dtype=float)).tolist()
        return s
    if k == "mesh":
        # world vertices R v + p  ->  2c - R v - p = R (-v) + (2c - p)
        s["vertices"] = (-np.asarray(spec["vertices"], dtype=float)).tolist()
        s["p"] = (2.0 * c - np.asarray(spec["p"], dtype=float)).tolist()
        return s
    if k == "cone":
        # -I = (rotation by pi about the local x axis) o (mirror x -> -x); a
        # cone is symmetric under the mirror
        s["R"] = (np.asarray(spec["R"], dtype=float) * np.array([1.0, -1.0, -1.0])).tolist()
        s["p"] = (2.0 * c - np.asarray(spec["p"], dtype=float)).tolist()
        return s
    if k in ("sphere", "ellipsoid", "capsule", "cylinder", "box", "disk", "ellipse"):
        s["p"] = (2.0 * c - np.asarray(spec["p"], dtype=float)).tolist()    # centrally symmetric
        return s
    return None


def match_known(f, case, known):
    """C08-K1: the contact position is the midpoint of a point of A and a
    point of B that differ by depth*u; it is outside one collider by at most
    depth/2 (nested / deep overlaps). Matched only when pos +- depth/2*u are
    points of A resp. B (within the band) and the miss is <= depth/2 + band."""
    ids = {k["id"] for k in known}
    d = f.get("data", {})
    if "C08-K2" in ids and f["bucket"].startswith("nonfinite/") and d.get("only_contact_nan"):
        return "C08-K2"
    if ("C08-K3" in ids and f["bucket"].startswith("contact-outside/")) or \
            ("C08-K5" in ids and f["bucket"].startswith("nonfinite/") and d.get("only_contact_nan")):
        tr = S.truth(case)
        A, B = tr["A"], tr["B"]
        if A.flat and B.flat and A.kind in ("disk", "ellipse") and B.kind in ("disk", "ellipse"):
            if abs(float(A.R[:, 2].dot(B.R[:, 2]))) >= 1.0 - 1e-9:
                return "C08-K3" if f["bucket"].startswith("contact-outside/") else "C08-K5"
    if "C08-K4" in ids and f["bucket"].startswith("contact-outside/") and \
            d.get("pd_hi", 1.0) <= 2e-3 * S.truth(case)["L"]:
        return "C08-K4"
    if "C08-K1" in ids and f["bucket"].startswith("contact-outside/") and d.get("midpoint_model"):
        L = S.truth(case)["L"]
        if d["outside"] <= 0.5 * d["depth"] + 2e-3 * L:
            return "C08-K1"
    return None
