"""C12 - symmetry in the arguments, rigid-motion invariance, scaling."""
import numpy as np
from hypothesis import strategies as st

from ..common import fail, call_lib, LibError, finite
from ..gen import atoms, scenes as S
from ..gen.colliders import KINDS, build, transform as transform_spec
from ..ref.shapes import ref
from ..ref.refdist import refdist
from . import prim
from .narrow import boolean_tests, pair_tag, is_primitive_pair
from .c07 import simplex_class

RULE = ("Hypothesis: a base scene (C01/C02 scene families for all 100 "
        "collider pairs; C10 pair placements for the 34 primitive functions) "
        "and a transform g: argument swap; proper rigid motion (random "
        "rotation, signed permutation, special angles; translation up to 1e3 "
        "inside the domain); uniform scale s in [1e-2,1e2] with sizes kept in "
        "the domain. The image scene is rebuilt from transformed specs "
        "through the constructors. Oracle (metamorphic, no reference needed): "
        "distances / depths equal within tol(L)+tol(L') of the respective "
        "property (scaled by s for scaling); booleans equal on scenes that "
        "are clear by construction; closest points compared under g only for "
        "pairs of strictly convex shapes (sphere, ellipsoid) where the optimum "
        "is unique. Non-trivial: g is a rotation, a scaling, or a swap of "
        "distinct kinds.")
ASSUMPTIONS = ["EPA compared only when both calls report success on a proper tetrahedron simplex",
               "primitive functions: swap only for functions whose two arguments have the same kind"]
N = {"quick": 10, "thorough": 400}
N_PRIM = {"quick": 60, "thorough": 2500}
SMOOTH_UNIQUE = {"sphere", "ellipsoid"}


def cells(tier):
    out = []
    for a in KINDS:
        for b in KINDS:
            out.append({"name": "narrow-%s-%s" % (a, b), "what": "narrow", "A": a, "B": b, "n": N[tier]})
    for f in prim.FUNCTIONS:
        # the box functions have the deepest case trees (C12-m1 hides in one
        # branch of _line_to_box._case_0): three times the cases
        k = 3 if f in ("line_to_box", "line_segment_to_box", "rectangle_to_box") else 1
        out.append({"name": "prim-" + f, "what": "prim", "fn": f, "n": k * N_PRIM[tier]})
    return out


@st.composite
def _g(draw, allow_swap=True):
    kinds = ["motion", "motion", "scale"] + (["swap"] if allow_swap else [])
    k = draw(st.sampled_from(kinds))
    g = {"kind": k}
    if k == "motion":
        g["R"] = draw(atoms.rotations(("random", "perm", "special", "composed")))
        g["t"] = draw(st.one_of(atoms.positions(10.0), atoms.pos_ball(400.0)))
    elif k == "scale":
        g["s"] = draw(st.sampled_from([0.01, 0.1, 0.5, 2.0, 10.0, 100.0, 3.7]))
    return g


@st.composite
def _narrow_case(draw, a, b):
    # sizes restricted so that a scale factor keeps the image in the domain
    g = draw(_g())
    lo, hi = 1e-2, 1e2
    if g["kind"] == "scale":
        lo, hi = max(1e-2, 1e-2 / g["s"]), min(1e2, 1e2 / g["s"])
        if lo * 1.01 >= hi:
            lo, hi = 0.5, 2.0
            g["s"] = 2.0
    scene = draw(S.scenes(a, b, margin=True, far=False, size_lo=lo, size_hi=hi))
    return {"scene": scene, "g": g}


@st.composite
def _prim_case(draw, fname):
    k1, k2 = prim.FUNCTIONS[fname]
    g = draw(_g(allow_swap=(k1 == k2)))
    fam = draw(st.sampled_from(["free", "shared", "planar", "touch", "inside", "lattice"]))
    base = draw(prim.pair_case(fname, fam))
    return {"base": base, "g": g}


def strategy(cell):
    if cell["what"] == "narrow":
        return _narrow_case(cell["A"], cell["B"])
    return _prim_case(cell["fn"])


def image_scene(scene, g):
    if g["kind"] == "swap":
        return {"A": scene["B"], "B": scene["A"], "family": scene["family"], "wit": {}, "labels": scene["labels"]}
    if g["kind"] == "motion":
        G, t, s = np.array(g["R"]), np.array(g["t"]), 1.0
    else:
        G, t, s = np.eye(3), np.zeros(3), g["s"]
    return {"A": transform_spec(scene["A"], G, t, s), "B": transform_spec(scene["B"], G, t, s),
            "family": scene["family"], "wit": {}, "labels": scene["labels"]}


def gmap_point(x, g):
    x = np.asarray(x, dtype=float)
    if g["kind"] == "motion":
        return np.array(g["R"]).dot(x) + np.array(g["t"])
    if g["kind"] == "scale":
        return g["s"] * x
    return x


def check_narrow(case):
    from distance3d import gjk, mpr
    from distance3d.epa import epa
    from distance3d.utils import MAX_FLOAT
    scene, g = case["scene"], case["g"]
    img = image_scene(scene, g)
    s = g.get("s", 1.0)
    tr = S.truth(scene)
    L = tr["L"]
    tr2 = S.truth(img)
    L2 = tr2["L"]
    tag = pair_tag(scene)
    gk = g["kind"]
    labels = ["g:" + gk] + list(scene.get("labels", ()))
    fails = []

    def objs(sc):
        return build(sc["A"]), build(sc["B"])

    def both(fn):
        a, b = objs(scene)
        r1 = call_lib(fn, a, b)
        a2, b2 = objs(img)
        r2 = call_lib(fn, a2, b2)
        return r1, r2

    def scalar(name, fn, k):
        r1, r2 = both(fn)
        if isinstance(r1, LibError) or isinstance(r2, LibError):
            if isinstance(r1, LibError) != isinstance(r2, LibError):
                e = r1 if isinstance(r1, LibError) else r2
                fails.append(fail("exception-one-side/%s/%s" % (name, gk),
                                  "%s raises on one side of g only: %r" % (name, e), query=name))
            return None
        return r1, r2
    # --- distances
    for name, fn, k in (
            ("gjk_distance_jolt", lambda a, b: gjk.gjk_distance_jolt(a, b, max_distance_squared=float("inf")), 1e-5),
            ("gjk_distance_original", gjk.gjk_distance_original, 1e-3),
            ("nesterov_distance", lambda a, b: (gjk.gjk_nesterov_accelerated_distance(a, b),), 1e-3)):
        r = scalar(name, fn, k)
        if r is None:
            continue
        d1, d2 = float(r[0][0]), float(r[1][0])
        if not finite(d1, d2):
            continue
        tol = k * L * s + k * L2
        if abs(d1 * s - d2) > tol:
            fails.append(fail("distance-not-invariant/%s/%s" % (name, gk),
                              "%s: d = %.9g, after %s d' = %.9g (expected %.9g, tol %.3g) [%s]" % (
                                  name, d1, gk, d2, d1 * s, tol, tag), query=name, g=gk))
        elif name == "gjk_distance_jolt" and scene["A"]["kind"] in SMOOTH_UNIQUE and \
                scene["B"]["kind"] in SMOOTH_UNIQUE and d1 > 1e-3 * L and \
                not scene["A"].get("margin") and not scene["B"].get("margin"):
            a1, b1 = np.asarray(r[0][1]), np.asarray(r[0][2])
            a2, b2 = np.asarray(r[1][1]), np.asarray(r[1][2])
            if gk == "swap":
                a2, b2 = b2, a2
            # closest points are unique; conditioning ~ sqrt(tol * size)
            ptol = 10 * np.sqrt(tol * max(L, L2)) + tol
            if max(np.linalg.norm(gmap_point(a1, g) - a2), np.linalg.norm(gmap_point(b1, g) - b2)) > ptol:
                fails.append(fail("points-not-equivariant/%s/%s" % (name, gk),
                                  "%s: closest points do not move with g (unique optimum)" % name, query=name, g=gk))
            labels.append("points-compared")
    # --- booleans on clear scenes
    delta = 1e-3 * L
    clear = tr["lo"] >= 1.05 * delta or tr["overlap_depth"] >= 1.05 * delta
    if clear and not (tr["A"].flat and tr["B"].flat):
        labels.append("clear")
        for name, fn in boolean_tests(scene).items():
            r1, r2 = both(fn)
            if isinstance(r1, LibError) or isinstance(r2, LibError):
                if isinstance(r1, LibError) != isinstance(r2, LibError):
                    fails.append(fail("exception-one-side/%s/%s" % (name, gk), "%s raises on one side of g only" % name, query=name))
                continue
            if bool(r1) != bool(r2):
                fails.append(fail("boolean-not-invariant/%s/%s" % (name, gk),
                                  "%s answers %r, after %s %r [%s]" % (name, bool(r1), gk, bool(r2), tag), query=name, g=gk))
    # --- depths on overlapping scenes
    if tr["hi"] == 0.0 and tr["overlap_depth"] > 0:
        r1, r2 = both(mpr.mpr_penetration)
        coincident = float(np.linalg.norm(tr["A"].center() - tr["B"].center())) <= 1e-9 * L
        if coincident:
            labels.append("mpr-centres-coincide")
        if not isinstance(r1, LibError) and not isinstance(r2, LibError) and r1[0] and r2[0]:
            band = 2e-3 * L * s + 2e-3 * L2
            if finite(r1[1], r2[1]) and abs(r1[1] * s - r2[1]) > band:
                from ..ref.penetration import pd_bounds
                lo1 = pd_bounds(tr["A"], tr["B"])[0]
                lo2 = pd_bounds(tr2["A"], tr2["B"])[0]
                admissible = bool(r1[1] >= lo1 - 2e-3 * L and r2[1] >= lo2 - 2e-3 * L2)
                fails.append(fail("depth-not-invariant/mpr/%s" % gk,
                                  "mpr depth %.9g, after %s %.9g (expected %.9g, band %.3g) [%s]" % (
                                      r1[1], gk, r2[1], r1[1] * s, band, tag), query="mpr", g=gk,
                                  centres_coincide=bool(coincident), both_admissible=admissible))

        def gjk_epa_on(sc_, L_):
            def run(a, b):
                rr = gjk.gjk(a, b)
                if rr[0] != 0.0:
                    return None
                W = np.array(rr[3], dtype=float)
                if not simplex_class(W, L_)[0].startswith("tetra"):
                    return None
                # rows that GJK did not write are uninitialised memory (C07-K1)
                # and may form a 'proper' tetrahedron by accident: every row
                # must be a point of A - B, i.e. A meets B translated by it
                for w in W:
                    if not finite(w):
                        return None
                    Bw = transform_spec(sc_["B"], np.eye(3), w, 1.0)
                    if refdist(ref(sc_["A"]), ref(Bw), scale=L_)["lower"] > 1e-6 * L_:
                        labels.append("epa-stale-row")
                        return None
                m = epa(rr[3], a, b)
                return float(np.linalg.norm(m[0])) if m[2] else None
            return run
        e1 = call_lib(gjk_epa_on(scene, L), *objs(scene))
        e2 = call_lib(gjk_epa_on(img, L2), *objs(img))
        if not isinstance(e1, LibError) and not isinstance(e2, LibError) and e1 is not None and e2 is not None:
            tol = 1e-6 * L * s + 1e-6 * L2
            labels.append("epa-compared")
            if abs(e1 * s - e2) > tol:
                fails.append(fail("depth-not-invariant/epa/%s" % gk,
                                  "|mtv| = %.9g, after %s %.9g (expected %.9g, tol %.3g) [%s]" % (
                                      e1, gk, e2, e1 * s, tol, tag), query="epa", g=gk))
    nt = gk == "scale" or (gk == "motion" and not np.array_equal(np.array(g["R"]), np.eye(3))) or \
        (gk == "swap" and scene["A"]["kind"] != scene["B"]["kind"])
    return fails, {"labels": labels, "nontrivial": bool(nt)}


def prim_image(spec, g):
    if g["kind"] == "motion":
        G, t, s = np.array(g["R"]), np.array(g["t"]), 1.0
    else:
        G, t, s = np.eye(3), np.zeros(3), g["s"]
    o = dict(spec)
    for key in ("x", "p", "a", "b", "c"):
        if key in o and not (key == "p" and spec["kind"] in ("box", "ellipsoid", "cylinder") and False):
            o[key] = (s * G.dot(np.array(spec[key], dtype=float)) + t).tolist()
    if "V" in o:
        o["V"] = (s * np.array(spec["V"], dtype=float).dot(G.T) + t).tolist()
    if "R" in o:
        o["R"] = G.dot(np.array(spec["R"], dtype=float)).tolist()
    for key in ("d", "n"):
        if key in o:
            o[key] = G.dot(np.array(spec[key], dtype=float)).tolist()
    for key in ("radius", "length"):
        if key in o:
            o[key] = spec[key] * s
    for key in ("lengths", "size", "radii"):
        if key in o:
            o[key] = [v * s for v in spec[key]]
    return o


def check_prim(case):
    base, g = case["base"], case["g"]
    fname = base["fn"]
    gk = g["kind"]
    s = g.get("s", 1.0)
    p1, p2 = base["p1"], base["p2"]
    if gk == "swap":
        q1, q2 = p2, p1
    else:
        q1, q2 = prim_image(p1, g), prim_image(p2, g)
    if gk == "scale":
        for q in (q1, q2):
            for key in ("radius", "length"):
                if key in q and not (0.2 <= q[key] <= 100.0):
                    return [], {"labels": ["out-of-domain-after-scale"], "nontrivial": False, "undecided": 1}
            for key in ("lengths", "size", "radii"):
                if key in q and not all(0.2 <= v <= 100.0 for v in q[key]):
                    return [], {"labels": ["out-of-domain-after-scale"], "nontrivial": False, "undecided": 1}
    P1, P2 = prim.refprim(p1), prim.refprim(p2)
    L = prim.scale_L(P1, P2)
    labels = [fname, "g:" + gk]
    r1 = prim.call_function(fname, p1, p2)
    r2 = prim.call_function(fname, q1, q2)
    if isinstance(r1, LibError) or isinstance(r2, LibError):
        if isinstance(r1, LibError) != isinstance(r2, LibError):
            e = r1 if isinstance(r1, LibError) else r2
            return [fail("exception-one-side/%s/%s" % (fname, gk), "%s raises on one side of g only: %r" % (fname, e), fn=fname)], \
                {"labels": labels, "nontrivial": True}
        return [], {"labels": labels, "nontrivial": False}
    d1, d2 = float(r1[0]), float(r2[0])
    fails = []
    band, _ = prim.band_status(fname, P1, P2)
    band2, _ = prim.band_status(fname, prim.refprim(q1), prim.refprim(q2))
    if fname in prim.EPSILON_FUNCTIONS and (band != "clear" or band2 != "clear"):
        return [], {"labels": labels + ["epsilon-band"], "nontrivial": False, "undecided": 1}
    k = 5e-3 if fname == "line_to_circle" else 1e-6
    tol = k * L * s + k * L * s
    if finite(d1, d2) and abs(d1 * s - d2) > tol:
        fails.append(fail("distance-not-invariant/%s/%s" % (fname, gk),
                          "%s: d = %.9g, after %s d' = %.9g (expected %.9g, tol %.3g)" % (fname, d1, gk, d2, d1 * s, tol),
                          fn=fname, g=gk))
    nt = gk == "scale" or gk == "swap" or not np.array_equal(np.array(g.get("R", np.eye(3))), np.eye(3))
    return fails, {"labels": labels, "nontrivial": bool(nt)}


def check_case(case, cell):
    if "scene" in case:
        return check_narrow(case)
    return check_prim(case)


def match_known(f, case, known):
    """C12-K1: MPR with coinciding centres (degenerate origin ray, the world
    x axis is used instead); C12-K2: line_segment_to_circle / line_to_circle /
    disk_to_disk are not the minimum distance (C11-K1..K3), so they are not
    invariant either."""
    ids = {k["id"] for k in known}
    d = f.get("data", {})
    if "C12-K1" in ids and d.get("query") == "mpr" and (d.get("centres_coincide") or d.get("both_admissible")):
        return "C12-K1"
    if "C12-K2" in ids and d.get("fn") in ("line_segment_to_circle", "line_to_circle", "disk_to_disk") and \
            f["bucket"].startswith("distance-not-invariant/"):
        return "C12-K2"
    return None
