"""C10 - primitive distance functions: points on their primitives, consistent."""
from . import prim

RULE = ("Hypothesis: for each of the 34 functions of distance3d.distance, two "
        "primitive specs in domain P (sizes [0.2,1e2], default epsilons) "
        "placed by family free / shared (rotation of the second = rotation of "
        "the first times a signed permutation: exactly parallel, "
        "perpendicular, coplanar) / touch (constructed gap 0..1 via support "
        "sets) / inside (centres coincide, contained, coincident) / lattice, "
        "optionally offset to |p|~1e3. Oracle: closed-form point-to-primitive "
        "residuals (1e-9*L), | |p1-p2| - d | <= 1e-6*L, d >= 0, finite, no "
        "exception. Non-trivial: family other than free, or centres "
        "coinciding. Distinct by hash of the pair spec.")
ASSUMPTIONS = ["L = max(1, sizes, centre distance)"]
FAMILIES = ["free", "shared", "touch", "inside", "lattice", "planar"]
N = {"quick": 30, "thorough": 2000}
LEVEL = "exploration"
WHICH = 0


def cells(tier):
    # the box functions have the deepest case trees: three times the cases
    deep = ("line_to_box", "line_segment_to_box", "rectangle_to_box")
    out = [{"name": "%s-%s" % (f, fam), "fn": f, "family": fam, "n": (3 if f in deep else 1) * N[tier]}
           for f in prim.FUNCTIONS for fam in FAMILIES]
    if tier == "thorough":
        from ..common import fuzz_cells
        out += fuzz_cells("line-box-c10", 4, 200000)
    return out


def strategy(cell):
    return prim.pair_case(cell["fn"], cell["family"])


def check_case(case, cell):
    f10, f11, info = prim.evaluate(case)
    return (f10, f11)[WHICH], info


def match_known(f, case, known):
    """Function-wide findings for the three approximate algorithms; see
    known_findings.json for what exactly is matched."""
    ids = {k["id"] for k in known}
    fn = case["fn"]
    clause = f["bucket"].split("/")[0]
    d = f.get("data", {})
    if WHICH == 0:
        if "C10-K1" in ids and fn == "disk_to_disk" and clause.startswith("off-primitive"):
            return "C10-K1"
        if "C10-K2" in ids and fn in ("line_to_circle", "line_segment_to_circle") and \
                clause.startswith("off-primitive"):
            return "C10-K2"
    else:
        if "C11-K1" in ids and fn == "disk_to_disk" and clause == "not-minimal":
            return "C11-K1"
        if "C11-K2" in ids and fn == "line_segment_to_circle" and clause == "not-minimal":
            return "C11-K2"
        if "C11-K3" in ids and fn == "line_to_circle" and clause == "not-minimal":
            return "C11-K3"
    return None
