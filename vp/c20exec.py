"""Executes a C20 call list in the current interpreter mode and dumps results.

usage: python -m vp.c20exec <calls.json> <out.json>
Every record is executed independently; the result is
  {"ok": true, "value": <json, floats as repr-able python floats / hex>} or
  {"ok": false, "exc": "<exception type>"}.
"""
import json
import sys

from . import env  # noqa: F401
import numpy as np


def enc(x):
    if x is None:
        return None
    if isinstance(x, str):
        return x
    if isinstance(x, (bool, np.bool_)):
        return bool(x)
    if isinstance(x, (int, np.integer)):
        return int(x)
    if isinstance(x, (float, np.floating)):
        return {"f": float(x).hex()}
    if isinstance(x, np.ndarray):
        if x.dtype == bool:
            return {"b": x.astype(int).tolist()}
        if np.issubdtype(x.dtype, np.integer):
            return {"i": x.tolist()}
        return {"a": [float(v).hex() for v in x.ravel()], "shape": list(x.shape)}
    if isinstance(x, (list, tuple)):
        return [enc(v) for v in x]
    if isinstance(x, dict):
        return {str(k): enc(v) for k, v in x.items()}
    if hasattr(x, "name") and hasattr(x, "value"):    # Enum
        return str(x.name)
    return repr(x)


def run(rec):
    from .props import c20
    return c20.execute(rec)


def main():
    calls = json.load(open(sys.argv[1]))
    out = []
    for rec in calls:
        try:
            out.append({"ok": True, "value": enc(run(rec))})
        except Exception as e:   # noqa: BLE001
            out.append({"ok": False, "exc": type(e).__name__, "msg": str(e)[:200]})
    json.dump(out, open(sys.argv[2], "w"))


if __name__ == "__main__":
    main()
