"""Penetration-depth bounds for two overlapping reference shapes.

PD(A,B) = min over unit n of extent(n) = h_A(n) + h_B(-n)   (A-B contains 0).
  upper bound: any direction n;   lower bound: 2r for a ball of radius r
  contained in both shapes; exact for polytopes (qhull).
"""
import math

import numpy as np

from .polytope import is_polytope, polytope_vertices, penetration_depth


def _fib_sphere(n):
    i = np.arange(n) + 0.5
    phi = np.arccos(1 - 2 * i / n)
    th = math.pi * (1 + 5 ** 0.5) * i
    return np.stack([np.cos(th) * np.sin(phi), np.sin(th) * np.sin(phi), np.cos(phi)], axis=1)


_DIRS = _fib_sphere(300)


def extent(A, B, n):
    return A.h(n) + B.h(-n)


def pd_upper(A, B, extra_dirs=()):
    """(upper bound of PD, direction) from sampled + locally refined directions."""
    dirs = [d for d in _DIRS]
    for S in (A, B):
        R = getattr(S, "R", None)
        if R is not None:
            for k in range(3):
                dirs.append(R[:, k])
                dirs.append(-R[:, k])
    c = B.center() - A.center()
    if np.linalg.norm(c) > 0:
        dirs.append(c / np.linalg.norm(c))
        dirs.append(-c / np.linalg.norm(c))
    for d in extra_dirs:
        d = np.asarray(d, dtype=float)
        if np.linalg.norm(d) > 0:
            dirs.append(d / np.linalg.norm(d))
    vals = [extent(A, B, n) for n in dirs]
    i = int(np.argmin(vals))
    best, bn = vals[i], np.asarray(dirs[i], dtype=float)
    # local refinement by shrinking random perturbations (deterministic)
    rng = np.random.RandomState(12345)
    step = 0.2
    for _ in range(60):
        improved = False
        for _ in range(8):
            n = bn + step * rng.normal(size=3)
            n /= np.linalg.norm(n)
            e = extent(A, B, n)
            if e < best:
                best, bn, improved = e, n, True
        if not improved:
            step *= 0.5
            if step < 1e-7:
                break
    return best, bn


def pd_lower(A, B, dirs=()):
    """Lower bound 2r of PD from a ball inside both shapes (0.0 if none found)."""
    best = 0.0
    cands = []
    for n in dirs:
        n = np.asarray(n, dtype=float)
        if np.linalg.norm(n) == 0:
            continue
        n = n / np.linalg.norm(n)
        cands.append(0.5 * (A.support(n) + B.support(-n)))
    cands.append(0.5 * (A.inner_center() + B.inner_center()))
    for c in cands:
        if A.flat or B.flat:
            break
        ra = -A.sdist(c)[1]
        rb = -B.sdist(c)[1]
        r = min(ra, rb)
        if r > 0:
            best = max(best, 2.0 * r)
    return best


def pd_bounds(A, B, dirs=()):
    """(lo, hi, exact) bounds of the penetration depth (0 if separated)."""
    if is_polytope(A) and is_polytope(B):
        pd, n = penetration_depth(polytope_vertices(A), polytope_vertices(B))
        if pd is not None:
            pd = max(pd, 0.0)
            return pd, pd, True
    hi, n = pd_upper(A, B, dirs)
    lo = pd_lower(A, B, list(dirs) + [n])
    return max(lo, 0.0), max(hi, 0.0), False
