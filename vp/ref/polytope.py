"""Exact penetration depth of two overlapping convex polytopes (qhull)."""
import numpy as np


def polytope_vertices(S):
    """World-frame vertices of a reference polytope (box, hull, mesh)."""
    if hasattr(S, "V"):
        return S.V
    if S.kind == "box":
        return S.vertices()
    raise ValueError("not a polytope: %s" % S.kind)


def is_polytope(S):
    return S.kind in ("box", "hull", "mesh") and not getattr(S, "m", 0.0)


def penetration_depth(VA, VB):
    """PD of conv(VA), conv(VB): min over unit n of max_{x in A-B} n.x, which
    for 0 inside A-B is the distance of 0 to the boundary of A-B.

    Returns (pd, n) with n the outward facet normal of A-B attaining it, or
    (None, None) if A-B is not full-dimensional. pd < 0 means separated (then
    -pd is only a lower bound on the distance).
    """
    from scipy.spatial import ConvexHull, QhullError
    D = (VA[:, None, :] - VB[None, :, :]).reshape(-1, 3)
    try:
        qh = ConvexHull(D)
    except (QhullError, ValueError):
        return None, None
    off = qh.equations[:, 3]     # n.x + off <= 0 inside
    i = int(np.argmax(off))      # facet closest to the origin: -off minimal
    return float(-off[i]), qh.equations[i, :3].copy()
