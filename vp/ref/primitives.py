"""Reference geometric primitives for distance3d.distance (C10/C11).

prim spec (plain dict):
  point     x
  line      p, d (unit)
  segment   a, b
  plane     p, n (unit)
  triangle  V (3x3)
  rectangle c, R (axes = R[:,0], R[:,1]), lengths[2]
  circle    c, R (normal = R[:,2]), radius     (curve, not convex)
  disk      c, R (normal = R[:,2]), radius
  box       R, p, size ; ellipsoid R, p, radii ; cylinder R, p, radius, length

Each RefPrim offers: resid(x) distance of x to the primitive (closed form),
center(), radius() (bounding radius about center; for unbounded: 0),
features() unit feature directions, convex_shape(other_center, other_radius)
-> a bounded convex RefShape that provably contains the closest point(s) to a
set inside ball(other_center, other_radius) (None for the circle).
"""
import math

import numpy as np

from .shapes import ref as ref_shape, Point, Hull, _seg_dist


def _a(x):
    return np.array(x, dtype=float)


def _basis(n):
    n = _a(n)
    k = int(np.argmin(np.abs(n)))
    e = np.zeros(3)
    e[k] = 1.0
    u = np.cross(n, e)
    u /= np.linalg.norm(u)
    v = np.cross(n, u)
    return u, v


class RefPrim:
    bounded = True
    convex = True

    def __init__(self, spec):
        self.spec = spec
        self.kind = spec["kind"]

    def features(self):
        return []

    def size(self):
        return self.radius()


class PPoint(RefPrim):
    def __init__(self, spec):
        super().__init__(spec)
        self.x = _a(spec["x"])

    def resid(self, y):
        return float(np.linalg.norm(_a(y) - self.x))

    def center(self):
        return self.x

    def radius(self):
        return 0.0

    def convex_shape(self, oc, orad):
        return Point(self.x)


class PLine(RefPrim):
    bounded = False

    def __init__(self, spec):
        super().__init__(spec)
        self.p = _a(spec["p"])
        self.d = _a(spec["d"])

    def resid(self, y):
        w = _a(y) - self.p
        return float(np.linalg.norm(w - w.dot(self.d) * self.d / self.d.dot(self.d)))

    def center(self):
        return self.p

    def radius(self):
        return 0.0

    def features(self):
        return [("line", self.d / np.linalg.norm(self.d))]

    def convex_shape(self, oc, orad):
        d = self.d / np.linalg.norm(self.d)
        t0 = (oc - self.p).dot(d)
        q = self.p + t0 * d
        W = 2.0 * (np.linalg.norm(oc - q) + orad) + 1.0
        return Hull({"kind": "hull", "vertices": [(q - W * d).tolist(), (q + W * d).tolist()]})


class PSegment(RefPrim):
    def __init__(self, spec):
        super().__init__(spec)
        self.a = _a(spec["a"])
        self.b = _a(spec["b"])

    def resid(self, y):
        ab = self.b - self.a
        t = min(max((_a(y) - self.a).dot(ab) / ab.dot(ab), 0.0), 1.0)
        return float(np.linalg.norm(self.a + t * ab - _a(y)))

    def center(self):
        return 0.5 * (self.a + self.b)

    def radius(self):
        return 0.5 * float(np.linalg.norm(self.b - self.a))

    def size(self):
        return float(np.linalg.norm(self.b - self.a))

    def features(self):
        d = self.b - self.a
        return [("line", d / np.linalg.norm(d))]

    def convex_shape(self, oc, orad):
        return Hull({"kind": "hull", "vertices": [self.a.tolist(), self.b.tolist()]})


class PPlane(RefPrim):
    bounded = False

    def __init__(self, spec):
        super().__init__(spec)
        self.p = _a(spec["p"])
        self.n = _a(spec["n"])

    def resid(self, y):
        return abs(float((_a(y) - self.p).dot(self.n))) / float(np.linalg.norm(self.n))

    def center(self):
        return self.p

    def radius(self):
        return 0.0

    def features(self):
        return [("normal", self.n / np.linalg.norm(self.n))]

    def convex_shape(self, oc, orad):
        n = self.n / np.linalg.norm(self.n)
        q = oc - (oc - self.p).dot(n) * n
        u, v = _basis(n)
        W = orad + 1.0
        V = [q + sx * W * u + sy * W * v for sx in (-1, 1) for sy in (-1, 1)]
        return Hull({"kind": "hull", "vertices": [x.tolist() for x in V]})


class PPoly(RefPrim):
    """triangle / rectangle as planar convex polygon"""

    def __init__(self, spec):
        super().__init__(spec)
        if spec["kind"] == "triangle":
            self.V = _a(spec["V"])
        else:
            R = _a(spec["R"])
            c = _a(spec["c"])
            l = _a(spec["lengths"])
            self.V = np.array([c + sx * 0.5 * l[0] * R[:, 0] + sy * 0.5 * l[1] * R[:, 1]
                               for sx, sy in ((-1, -1), (1, -1), (1, 1), (-1, 1))])
        self._hull = Hull({"kind": "hull", "vertices": self.V.tolist()})
        e0 = self.V[1] - self.V[0]
        e1 = self.V[2] - self.V[0]
        n = np.cross(e0, e1)
        self.n = n / np.linalg.norm(n)

    def resid(self, y):
        """exact distance to a planar convex polygon"""
        y = _a(y)
        V = self.V
        k = len(V)
        inside = True
        best = np.inf
        for i in range(k):
            a, b = V[i], V[(i + 1) % k]
            e = b - a
            t = min(max((y - a).dot(e) / e.dot(e), 0.0), 1.0)
            best = min(best, float(np.linalg.norm(a + t * e - y)))
            inward = np.cross(self.n, e)
            if (y - a).dot(inward) < 0.0:
                inside = False
        if inside:
            return abs(float((y - V[0]).dot(self.n)))
        return best

    def center(self):
        return self.V.mean(axis=0)

    def radius(self):
        return float(np.max(np.linalg.norm(self.V - self.center(), axis=1)))

    def size(self):
        k = len(self.V)
        return max(float(np.linalg.norm(self.V[(i + 1) % k] - self.V[i])) for i in range(k))

    def features(self):
        k = len(self.V)
        out = [("normal", self.n)]
        for i in range(k if self.kind == "triangle" else 2):
            e = self.V[(i + 1) % k] - self.V[i]
            out.append(("line", e / np.linalg.norm(e)))
        return out

    def convex_shape(self, oc, orad):
        return self._hull


class PCircle(RefPrim):
    convex = False

    def __init__(self, spec):
        super().__init__(spec)
        self.c = _a(spec["c"])
        self.R = _a(spec["R"])
        self.r = float(spec["radius"])

    def resid(self, y):
        l = self.R.T.dot(_a(y) - self.c)
        return math.hypot(math.hypot(l[0], l[1]) - self.r, l[2])

    def center(self):
        return self.c

    def radius(self):
        return self.r

    def features(self):
        return [("normal", self.R[:, 2])]

    def convex_shape(self, oc, orad):
        return None

    def point(self, phi):
        return self.c + self.r * (math.cos(phi) * self.R[:, 0] + math.sin(phi) * self.R[:, 1])


class PShape(RefPrim):
    """disk, box, ellipsoid, cylinder via RefShape"""

    def __init__(self, spec):
        super().__init__(spec)
        s = dict(spec)
        if spec["kind"] == "disk":
            s["p"] = spec["c"]
        self.S = ref_shape(s)

    def resid(self, y):
        lo, hi = self.S.sdist(_a(y))
        return max(lo, 0.0)

    def center(self):
        return self.S.center()

    def radius(self):
        return self.S.bounding_radius()

    def size(self):
        return self.S.feature_size() if self.kind != "box" else float(np.max(self.spec["size"]))

    def features(self):
        R = self.S.R
        if self.kind in ("disk", "cylinder"):
            return [("normal" if self.kind == "disk" else "line", R[:, 2])]
        if self.kind == "box":
            return [("line", R[:, k]) for k in range(3)]
        return []

    def convex_shape(self, oc, orad):
        return self.S


_CLS = {"point": PPoint, "line": PLine, "segment": PSegment, "plane": PPlane,
        "triangle": PPoly, "rectangle": PPoly, "circle": PCircle, "disk": PShape,
        "box": PShape, "ellipsoid": PShape, "cylinder": PShape}


def refprim(spec):
    return _CLS[spec["kind"]](spec)


# ------------------------------------------------------------------ distance

def unbounded_pair_distance(P1, P2):
    """Exact distance for line/plane pairs: returns d."""
    k = (P1.kind, P2.kind)
    if k == ("line", "line"):
        d1 = P1.d / np.linalg.norm(P1.d)
        d2 = P2.d / np.linalg.norm(P2.d)
        w = P2.p - P1.p
        n = np.cross(d1, d2)
        nn = np.linalg.norm(n)
        if nn <= 1e-12:
            return float(np.linalg.norm(w - w.dot(d1) * d1))
        return abs(float(w.dot(n))) / nn
    if k in (("line", "plane"), ("plane", "line")):
        L, Pl = (P1, P2) if P1.kind == "line" else (P2, P1)
        n = Pl.n / np.linalg.norm(Pl.n)
        d = L.d / np.linalg.norm(L.d)
        if abs(float(n.dot(d))) > 1e-12:
            return 0.0
        return abs(float((L.p - Pl.p).dot(n)))
    if k == ("plane", "plane"):
        n1 = P1.n / np.linalg.norm(P1.n)
        n2 = P2.n / np.linalg.norm(P2.n)
        if np.linalg.norm(np.cross(n1, n2)) > 1e-12:
            return 0.0
        return abs(float((P2.p - P1.p).dot(n1)))
    raise ValueError(k)


def circle_distance(C, P, samples=4096):
    """Global minimum distance between a circle and a point/line/segment by
    dense 1-D search over the circle angle + golden-section polish.
    Returns (d, point_on_circle)."""
    phis = np.linspace(0.0, 2 * math.pi, samples, endpoint=False)
    pts = C.c[None, :] + C.r * (np.cos(phis)[:, None] * C.R[:, 0][None, :]
                                + np.sin(phis)[:, None] * C.R[:, 1][None, :])
    vals = np.array([P.resid(x) for x in pts])
    order = np.argsort(vals)[:6]
    best = (np.inf, None)
    h = 2 * math.pi / samples
    gr = (math.sqrt(5) - 1) / 2
    for i in order:
        a, b = phis[i] - h, phis[i] + h
        f = lambda t: P.resid(C.point(t))
        c, d = b - gr * (b - a), a + gr * (b - a)
        fc, fd = f(c), f(d)
        for _ in range(80):
            if fc < fd:
                b, d, fd = d, c, fc
                c = b - gr * (b - a)
                fc = f(c)
            else:
                a, c, fc = c, d, fd
                d = a + gr * (b - a)
                fd = f(d)
        t = 0.5 * (a + b)
        v = f(t)
        if v < best[0]:
            best = (v, C.point(t))
    return best
