"""Reference shapes: closed-form support functions and signed-distance bounds.

Written from the mathematical definition of each shape. Never imports
distance3d. A shape is built from a *spec* (plain dict):

    {"kind": ..., "R": 3x3 rotation (nested lists), "p": [x,y,z], sizes...}

kinds and conventions (identical to the documented constructors):
  sphere     p, radius
  ellipsoid  R, p, radii[3]
  capsule    R, p, radius, height         segment along local z, +-height/2
  cylinder   R, p, radius, length         axis local z, +-length/2
  cone       R, p, radius, height         base disk at local z=0, apex z=height
  box        R, p, size[3]
  disk       R, p, radius                 normal = R[:,2]
  ellipse    R, p, radii[2]               axes = R[:,0], R[:,1]
  hull       vertices[n][3]               world frame
  mesh       R, p, vertices[n][3]         mesh frame vertices, (triangles by qhull)
optionally "margin": m  (Minkowski sum with a ball of radius m).
"""
import math

import numpy as np

EPS_TIE = 1e-12


def _arr(x):
    return np.array(x, dtype=float)


class RefShape:
    kind = None
    flat = False      # zero volume
    smooth = False    # curved boundary somewhere (not a polytope)

    def __init__(self, spec):
        self.spec = spec
        self.R = _arr(spec.get("R", np.eye(3).tolist()))
        self.p = _arr(spec.get("p", [0.0, 0.0, 0.0]))

    # --- frame helpers
    def to_local(self, x):
        return self.R.T.dot(np.asarray(x, dtype=float) - self.p)

    def to_world(self, y):
        return self.R.dot(y) + self.p

    def ldir(self, n):
        return self.R.T.dot(np.asarray(n, dtype=float))

    # --- to be provided
    def h_local(self, l):
        raise NotImplementedError

    def support_local(self, l):
        raise NotImplementedError

    def sdist_local(self, y):
        """(lo, hi) bounds of the signed distance of local point y."""
        raise NotImplementedError

    def support_set_local(self, l):
        """A few points spanning (part of) the support set along l."""
        return [self.support_local(l)]

    # --- public
    def h(self, n):
        n = np.asarray(n, dtype=float)
        return float(n.dot(self.p) + self.h_local(self.ldir(n)))

    def support(self, n):
        return self.to_world(self.support_local(self.ldir(n)))

    def support_set(self, n):
        return [self.to_world(y) for y in self.support_set_local(self.ldir(n))]

    def sdist(self, x):
        return self.sdist_local(self.to_local(x))

    def center(self):
        return self.p.copy()

    def feature_size(self):
        raise NotImplementedError

    def bounding_radius(self):
        """Radius about center() of a ball containing the shape."""
        raise NotImplementedError

    def inradius(self):
        """Radius of a ball about inner_center() inside the shape (0 if flat)."""
        return 0.0

    def inner_center(self):
        return self.center()

    def boundary_point(self, u):
        """A point of the boundary (for flat shapes: of the set) from u in R^3."""
        u = np.asarray(u, dtype=float)
        if not np.any(u):
            u = np.array([0.0, 0.0, 1.0])
        return self.support(u)

    def inner_point(self, u, s):
        """inner_center + s * (boundary_point(u) - inner_center), 0<=s<=1.

        By convexity its inside depth is >= (1 - s) * inradius.
        """
        c = self.inner_center()
        return c + s * (self.boundary_point(u) - c)


class Sphere(RefShape):
    kind = "sphere"
    smooth = True

    def __init__(self, spec):
        super().__init__(spec)
        self.r = float(spec["radius"])

    def h_local(self, l):
        return self.r * float(np.linalg.norm(l))

    def support_local(self, l):
        n = np.linalg.norm(l)
        if n == 0.0:
            return np.array([0.0, 0.0, self.r])
        return l * (self.r / n)

    def sdist_local(self, y):
        d = float(np.linalg.norm(y)) - self.r
        return d, d

    def feature_size(self):
        return self.r

    def bounding_radius(self):
        return self.r

    def inradius(self):
        return self.r


def _ellipsoid_outside_distance(e, y):
    """Distance of y (outside or on) to the solid axis-aligned ellipsoid with
    semi-axes e (any dimension), by bisection on Eberly's t. Returns
    (dist, closest_point)."""
    e = np.asarray(e, dtype=float)
    y = np.asarray(y, dtype=float)
    ay = np.abs(y)
    ey = e * ay
    e2 = e * e

    def F(t):
        return float(np.sum((ey / (t + e2)) ** 2)) - 1.0

    lo = 0.0
    if F(lo) <= 0.0:
        return 0.0, y.copy()
    hi = float(np.linalg.norm(ey))
    if hi == 0.0:
        return 0.0, y.copy()
    while F(hi) > 0.0:
        hi *= 2.0
    for _ in range(200):
        mid = 0.5 * (lo + hi)
        if mid == lo or mid == hi:
            break
        if F(mid) > 0.0:
            lo = mid
        else:
            hi = mid
    t = 0.5 * (lo + hi)
    x = e2 * y / (t + e2)
    return float(np.linalg.norm(x - y)), x


class Ellipsoid(RefShape):
    kind = "ellipsoid"
    smooth = True

    def __init__(self, spec):
        super().__init__(spec)
        self.e = _arr(spec["radii"])

    def h_local(self, l):
        return float(np.linalg.norm(self.e * l))

    def support_local(self, l):
        v = self.e * l
        n = np.linalg.norm(v)
        if n == 0.0:
            return np.array([0.0, 0.0, self.e[2]])
        return self.e * v / n

    def sdist_local(self, y):
        s = float(np.linalg.norm(y / self.e))
        if s >= 1.0:
            d, _ = _ellipsoid_outside_distance(self.e, y)
            # bisection is exact to rounding; give a small band
            w = 1e-13 * max(1.0, float(np.max(self.e)), float(np.linalg.norm(y)))
            return max(d - w, 0.0), d + w
        emin = float(np.min(self.e))
        lo_depth = (1.0 - s) * emin
        ny = float(np.linalg.norm(y))
        hi_depth = emin if s == 0.0 else min(emin, ny * (1.0 / s - 1.0))
        return -hi_depth, -lo_depth

    def feature_size(self):
        return float(np.max(self.e))

    def bounding_radius(self):
        return float(np.max(self.e))

    def inradius(self):
        return float(np.min(self.e))


def _seg_dist(y, half):
    """distance of y to the segment [-half, half] on the z axis"""
    z = min(max(y[2], -half), half)
    return math.sqrt(y[0] * y[0] + y[1] * y[1] + (y[2] - z) ** 2)


class Capsule(RefShape):
    kind = "capsule"
    smooth = True

    def __init__(self, spec):
        super().__init__(spec)
        self.r = float(spec["radius"])
        self.hh = 0.5 * float(spec["height"])

    def h_local(self, l):
        return self.hh * abs(float(l[2])) + self.r * float(np.linalg.norm(l))

    def support_local(self, l):
        n = np.linalg.norm(l)
        v = np.array([0.0, 0.0, self.r]) if n == 0.0 else l * (self.r / n)
        v = v.copy()
        v[2] += self.hh if l[2] >= 0.0 else -self.hh
        return v

    def support_set_local(self, l):
        n = np.linalg.norm(l)
        if n > 0 and abs(l[2]) <= EPS_TIE * n:
            v = l * (self.r / n)
            a = v.copy()
            b = v.copy()
            a[2] += self.hh
            b[2] -= self.hh
            return [a, b]
        return [self.support_local(l)]

    def sdist_local(self, y):
        d = _seg_dist(y, self.hh) - self.r
        return d, d

    def feature_size(self):
        return max(self.r, 2 * self.hh)

    def bounding_radius(self):
        return self.r + self.hh

    def inradius(self):
        return self.r


def _rim_points(r, z, k=4, phase=0.0):
    return [np.array([r * math.cos(phase + 2 * math.pi * i / k),
                      r * math.sin(phase + 2 * math.pi * i / k), z])
            for i in range(k)]


class Cylinder(RefShape):
    kind = "cylinder"
    smooth = True

    def __init__(self, spec):
        super().__init__(spec)
        self.r = float(spec["radius"])
        self.hl = 0.5 * float(spec["length"])

    def h_local(self, l):
        return self.r * math.hypot(l[0], l[1]) + self.hl * abs(float(l[2]))

    def support_local(self, l):
        s = math.hypot(l[0], l[1])
        z = self.hl if l[2] >= 0.0 else -self.hl
        if s == 0.0:
            return np.array([self.r, 0.0, z])
        return np.array([l[0] * self.r / s, l[1] * self.r / s, z])

    def support_set_local(self, l):
        n = np.linalg.norm(l)
        s = math.hypot(l[0], l[1])
        if n == 0.0:
            return [self.support_local(l)]
        if s <= EPS_TIE * n:   # cap
            z = self.hl if l[2] >= 0.0 else -self.hl
            return [np.array([0.0, 0.0, z])] + _rim_points(self.r, z)
        if abs(l[2]) <= EPS_TIE * n:   # side segment
            x, y = l[0] * self.r / s, l[1] * self.r / s
            return [np.array([x, y, self.hl]), np.array([x, y, -self.hl])]
        return [self.support_local(l)]

    def sdist_local(self, y):
        drho = math.hypot(y[0], y[1]) - self.r
        dz = abs(y[2]) - self.hl
        d = min(max(drho, dz), 0.0) + math.hypot(max(drho, 0.0), max(dz, 0.0))
        return d, d

    def feature_size(self):
        return max(self.r, 2 * self.hl)

    def bounding_radius(self):
        return math.hypot(self.r, self.hl)

    def inradius(self):
        return min(self.r, self.hl)


def _sdf_convex_polygon_2d(q, poly):
    """Signed distance from 2-D point q to a convex polygon given CCW."""
    n = len(poly)
    dmin = float("inf")
    inside = True
    for i in range(n):
        a = poly[i]
        b = poly[(i + 1) % n]
        e = (b[0] - a[0], b[1] - a[1])
        w = (q[0] - a[0], q[1] - a[1])
        el = e[0] * e[0] + e[1] * e[1]
        t = 0.0 if el == 0 else min(max((w[0] * e[0] + w[1] * e[1]) / el, 0.0), 1.0)
        dx = w[0] - t * e[0]
        dy = w[1] - t * e[1]
        dmin = min(dmin, math.hypot(dx, dy))
        cross = e[0] * w[1] - e[1] * w[0]
        if cross < 0.0:
            inside = False
    return -dmin if inside else dmin


class Cone(RefShape):
    kind = "cone"
    smooth = True

    def __init__(self, spec):
        super().__init__(spec)
        self.r = float(spec["radius"])
        self.ht = float(spec["height"])

    def h_local(self, l):
        return max(self.r * math.hypot(l[0], l[1]), self.ht * float(l[2]))

    def support_local(self, l):
        s = math.hypot(l[0], l[1])
        if self.r * s >= self.ht * l[2]:
            if s == 0.0:
                return np.array([0.0, 0.0, 0.0])
            return np.array([l[0] * self.r / s, l[1] * self.r / s, 0.0])
        return np.array([0.0, 0.0, self.ht])

    def support_set_local(self, l):
        n = np.linalg.norm(l)
        s = math.hypot(l[0], l[1])
        if n == 0.0:
            return [self.support_local(l)]
        if s <= EPS_TIE * n and l[2] < 0:   # base disk
            return [np.zeros(3)] + _rim_points(self.r, 0.0)
        if s > 0 and abs(self.r * s - self.ht * l[2]) <= EPS_TIE * n * max(self.r, self.ht):
            return [np.array([l[0] * self.r / s, l[1] * self.r / s, 0.0]),
                    np.array([0.0, 0.0, self.ht])]
        return [self.support_local(l)]

    def sdist_local(self, y):
        rho = math.hypot(y[0], y[1])
        d = _sdf_convex_polygon_2d(
            (rho, y[2]), [(-self.r, 0.0), (self.r, 0.0), (0.0, self.ht)])
        return d, d

    def center(self):
        return self.p + 0.5 * self.ht * self.R[:, 2]

    def feature_size(self):
        return max(self.r, self.ht)

    def bounding_radius(self):
        # about center() = mid-height point of the axis
        return max(math.hypot(self.r, 0.5 * self.ht), 0.5 * self.ht)

    def inradius(self):
        # incircle of the meridian triangle
        s = math.hypot(self.r, self.ht)
        return self.r * self.ht / (self.r + s)

    def inner_center(self):
        return self.p + self.inradius() * self.R[:, 2]


class Box(RefShape):
    kind = "box"

    def __init__(self, spec):
        super().__init__(spec)
        self.hs = 0.5 * _arr(spec["size"])

    def h_local(self, l):
        return float(np.sum(self.hs * np.abs(l)))

    def support_local(self, l):
        return np.where(l >= 0.0, self.hs, -self.hs)

    def support_set_local(self, l):
        n = np.linalg.norm(l)
        if n == 0.0:
            return [self.support_local(l)]
        opts = []
        for i in range(3):
            if abs(l[i]) <= EPS_TIE * n:
                opts.append([-self.hs[i], self.hs[i]])
            else:
                opts.append([self.hs[i] if l[i] > 0 else -self.hs[i]])
        return [np.array([a, b, c]) for a in opts[0] for b in opts[1] for c in opts[2]]

    def sdist_local(self, y):
        q = np.abs(y) - self.hs
        d = float(np.linalg.norm(np.maximum(q, 0.0))) + min(float(np.max(q)), 0.0)
        return d, d

    def vertices(self):
        return np.array([self.to_world(np.array([a, b, c]) * self.hs)
                         for a in (-1, 1) for b in (-1, 1) for c in (-1, 1)])

    def feature_size(self):
        return float(2 * np.max(self.hs))

    def bounding_radius(self):
        return float(np.linalg.norm(self.hs))

    def inradius(self):
        return float(np.min(self.hs))


class Disk(RefShape):
    kind = "disk"
    flat = True
    smooth = True

    def __init__(self, spec):
        super().__init__(spec)
        self.r = float(spec["radius"])

    def h_local(self, l):
        return self.r * math.hypot(l[0], l[1])

    def support_local(self, l):
        s = math.hypot(l[0], l[1])
        if s == 0.0:
            return np.zeros(3)
        return np.array([l[0] * self.r / s, l[1] * self.r / s, 0.0])

    def support_set_local(self, l):
        n = np.linalg.norm(l)
        s = math.hypot(l[0], l[1])
        if n > 0 and s <= EPS_TIE * n:
            return [np.zeros(3)] + _rim_points(self.r, 0.0)
        return [self.support_local(l)]

    def sdist_local(self, y):
        d = math.hypot(max(math.hypot(y[0], y[1]) - self.r, 0.0), y[2])
        return d, d

    def feature_size(self):
        return self.r

    def bounding_radius(self):
        return self.r

    def boundary_point(self, u):
        # any point of the disk: u in [-1,1]^3 -> polar
        u = np.asarray(u, dtype=float)
        rad = self.r * min(1.0, abs(float(u[2])) if len(u) > 2 else 1.0)
        s = math.hypot(u[0], u[1])
        if s == 0.0:
            return self.p.copy()
        return self.to_world(np.array([u[0] * rad / s, u[1] * rad / s, 0.0]))


class Ellipse(RefShape):
    kind = "ellipse"
    flat = True
    smooth = True

    def __init__(self, spec):
        super().__init__(spec)
        self.e = _arr(spec["radii"])

    def h_local(self, l):
        return math.hypot(self.e[0] * l[0], self.e[1] * l[1])

    def support_local(self, l):
        v = np.array([self.e[0] * l[0], self.e[1] * l[1]])
        n = np.linalg.norm(v)
        if n == 0.0:
            return np.zeros(3)
        return np.array([self.e[0] * v[0] / n, self.e[1] * v[1] / n, 0.0])

    def support_set_local(self, l):
        n = np.linalg.norm(l)
        s = math.hypot(l[0], l[1])
        if n > 0 and s <= EPS_TIE * n:
            return [np.zeros(3),
                    np.array([self.e[0], 0, 0.0]), np.array([-self.e[0], 0, 0.0]),
                    np.array([0, self.e[1], 0.0]), np.array([0, -self.e[1], 0.0])]
        return [self.support_local(l)]

    def sdist_local(self, y):
        d2, _ = _ellipsoid_outside_distance(self.e, y[:2])
        d = math.hypot(d2, y[2])
        w = 1e-13 * max(1.0, float(np.max(self.e)), float(np.linalg.norm(y)))
        return max(d - w, 0.0), d + w

    def feature_size(self):
        return float(np.max(self.e))

    def bounding_radius(self):
        return float(np.max(self.e))

    def boundary_point(self, u):
        u = np.asarray(u, dtype=float)
        s = math.hypot(u[0], u[1])
        f = min(1.0, abs(float(u[2])) if len(u) > 2 else 1.0)
        if s == 0.0:
            return self.p.copy()
        return self.to_world(np.array([self.e[0] * u[0] / s * f,
                                       self.e[1] * u[1] / s * f, 0.0]))


class Hull(RefShape):
    """Convex hull of world-frame vertices (kind hull) or of posed mesh-frame
    vertices (kind mesh). All computations in the world frame."""
    kind = "hull"

    def __init__(self, spec):
        super().__init__(spec)
        V = _arr(spec["vertices"])
        if spec["kind"] == "mesh":
            V = V.dot(self.R.T) + self.p
        self.kind = spec["kind"]
        self.V = V
        self.R = np.eye(3)
        self.p = np.zeros(3)
        self._c = V.mean(axis=0)
        self._qh = None
        self._rank = None

    def rank(self):
        if self._rank is None:
            D = self.V - self._c
            s = np.linalg.svd(D, compute_uv=False)
            self._rank = int(np.sum(s > 1e-9 * max(1.0, s[0]))) if len(s) else 0
        return self._rank

    @property
    def flat(self):
        return self.rank() < 3

    def qhull(self):
        if self._qh is None and self.rank() == 3:
            from scipy.spatial import ConvexHull
            self._qh = ConvexHull(self.V)
        return self._qh

    def h_local(self, l):
        return float(np.max(self.V.dot(l)))

    def support_local(self, l):
        return self.V[int(np.argmax(self.V.dot(l)))].copy()

    def support_set_local(self, l):
        n = np.linalg.norm(l)
        vals = self.V.dot(l)
        m = vals.max()
        scale = max(1.0, float(np.max(np.abs(self.V))))
        idx = np.nonzero(vals >= m - 1e-12 * n * scale)[0]
        return [self.V[i].copy() for i in idx[:8]]

    def sdist_local(self, y):
        qh = self.qhull()
        if qh is not None:
            eq = qh.equations
            s = eq[:, :3].dot(y) + eq[:, 3]
            m = float(np.max(s))
            w = 1e-12 * max(1.0, float(np.max(np.abs(self.V))))
            if m <= 0.0:
                return m - w, m + w     # inside: exact depth
            # outside: facet value is a lower bound; exact via refdist
        from .refdist import point_shape_distance
        lo, hi = point_shape_distance(y, self)
        return lo, hi

    def center(self):
        return self._c.copy()

    def feature_size(self):
        return float(np.max(np.linalg.norm(self.V - self._c, axis=1))) if len(self.V) else 0.0

    def bounding_radius(self):
        return self.feature_size()

    def inradius(self):
        qh = self.qhull()
        if qh is None:
            return 0.0
        eq = qh.equations
        return max(0.0, float(-np.max(eq[:, :3].dot(self._c) + eq[:, 3])))

    def boundary_point(self, u):
        u = np.asarray(u, dtype=float)
        if not np.any(u):
            u = np.array([0.0, 0.0, 1.0])
        pts = self.support_set_local(u)
        return np.mean(pts, axis=0)


class Margin(RefShape):
    smooth = True

    def __init__(self, inner, m):
        self.inner = inner
        self.m = float(m)
        self.kind = inner.kind
        self.spec = dict(inner.spec, margin=m)
        self.R = inner.R
        self.p = inner.p

    @property
    def flat(self):
        return False

    def h(self, n):
        return self.inner.h(n) + self.m * float(np.linalg.norm(n))

    def support(self, n):
        n = np.asarray(n, dtype=float)
        nn = np.linalg.norm(n)
        if nn == 0.0:
            return self.inner.support(n)
        return self.inner.support(n) + self.m * n / nn

    def support_set(self, n):
        n = np.asarray(n, dtype=float)
        nn = np.linalg.norm(n)
        off = 0.0 if nn == 0.0 else self.m * n / nn
        return [x + off for x in self.inner.support_set(n)]

    def sdist(self, x):
        lo, hi = self.inner.sdist(x)
        if self.inner.flat or lo >= 0:
            return lo - self.m, hi - self.m
        # inside a solid: depth grows by m
        return lo - self.m, hi - self.m

    def center(self):
        return self.inner.center()

    def inner_center(self):
        return self.inner.inner_center()

    def feature_size(self):
        return self.inner.feature_size() + self.m

    def bounding_radius(self):
        return self.inner.bounding_radius() + self.m

    def inradius(self):
        return self.inner.inradius() + self.m

    def boundary_point(self, u):
        u = np.asarray(u, dtype=float)
        if not np.any(u):
            u = np.array([0.0, 0.0, 1.0])
        return self.support(u)


_KINDS = {
    "sphere": Sphere, "ellipsoid": Ellipsoid, "capsule": Capsule,
    "cylinder": Cylinder, "cone": Cone, "box": Box, "disk": Disk,
    "ellipse": Ellipse, "hull": Hull, "mesh": Hull,
}


def ref(spec):
    s = _KINDS[spec["kind"]](spec)
    if spec.get("margin"):
        return Margin(s, spec["margin"])
    return s


class Point(RefShape):
    kind = "point"
    flat = True

    def __init__(self, x):
        self.x = np.asarray(x, dtype=float)
        self.R = np.eye(3)
        self.p = self.x

    def h(self, n):
        return float(np.dot(n, self.x))

    def support(self, n):
        return self.x.copy()

    def support_set(self, n):
        return [self.x.copy()]

    def sdist(self, y):
        d = float(np.linalg.norm(np.asarray(y) - self.x))
        return d, d

    def center(self):
        return self.x.copy()

    def feature_size(self):
        return 0.0

    def bounding_radius(self):
        return 0.0
