"""Reference distance between two convex RefShapes with certificates.

A small GJK of our own. Only the support functions are trusted: whatever the
solver does,
  * upper = |a - b| with a in A and b in B *by construction* (convex
    combinations of support points), and
  * lower = max over visited directions n of  -(h_A(n) + h_B(-n))  (a
    separating-plane bound, <= true distance),
so the true distance lies in [lower, upper].
"""
import itertools

import numpy as np

_SUBSETS = {
    k: [c for r in range(1, k + 1) for c in itertools.combinations(range(k), r)]
    for k in range(1, 5)
}


def closest_on_simplex(W):
    """Minimum-norm point of conv(rows of W) (k<=4), brute force over
    vertex subsets. Returns (v, weights)."""
    k = len(W)
    best = None
    for sub in _SUBSETS[k]:
        P = W[list(sub)]
        m = len(sub)
        if m == 1:
            lam = np.array([1.0])
        else:
            # minimise |sum lam_i P_i|^2, sum lam = 1 (affine hull)
            D = (P[1:] - P[0]).T              # 3 x (m-1)
            G = D.T.dot(D)
            rhs = -D.T.dot(P[0])
            try:
                t = np.linalg.solve(G, rhs)
            except np.linalg.LinAlgError:
                continue
            if not np.all(np.isfinite(t)):
                continue
            lam = np.concatenate(([1.0 - t.sum()], t))
            if np.any(lam < -1e-14):
                continue
            lam = np.maximum(lam, 0.0)
            lam /= lam.sum()
        v = lam.dot(P)
        n2 = float(v.dot(v))
        if best is None or n2 < best[0]:
            w = np.zeros(k)
            w[list(sub)] = lam
            best = (n2, v, w)
    return best[1], best[2]


def refdist(A, B, rel_tol=1e-13, max_iter=200, scale=None):
    """Certified distance interval between convex shapes A and B.

    Returns dict(lower, upper, a, b, n, iters). `n` is the unit direction of
    the best separating plane found (pointing from B to A), or None.
    """
    if scale is None:
        scale = max(1.0, A.bounding_radius(), B.bounding_radius(),
                    float(np.linalg.norm(A.center() - B.center())))
    d0 = A.center() - B.center()
    if not np.any(d0):
        d0 = np.array([1.0, 0.0, 0.0])
    Wa, Wb = [], []

    def add(dirn):
        a = A.support(-dirn)
        b = B.support(dirn)
        Wa.append(a)
        Wb.append(b)
        return a - b

    w = add(d0)
    W = [w]
    lower = -np.inf
    best_n = None
    upper = np.inf
    best = None
    v = w
    lam = np.array([1.0])
    it = 0
    for it in range(max_iter):
        Wm = np.array(W)
        v, lam = closest_on_simplex(Wm)
        vn = float(np.linalg.norm(v))
        a = lam.dot(np.array(Wa))
        b = lam.dot(np.array(Wb))
        up = float(np.linalg.norm(a - b))
        if up < upper:
            upper = up
            best = (a, b)
        if vn <= 1e-15 * scale:
            lower = max(lower, 0.0)
            break
        # prune
        keep = [i for i in range(len(W)) if lam[i] > 0.0]
        W = [W[i] for i in keep]
        Wa = [Wa[i] for i in keep]
        Wb = [Wb[i] for i in keep]
        n = v / vn
        # separating-plane bound along n:  min over A-B of n.x
        lb = -(A.h(-n) + B.h(n))
        if lb > lower:
            lower = lb
            best_n = n
        if upper - max(lower, 0.0) <= rel_tol * scale:
            break
        wn = add(v)
        # no progress: new point already in simplex
        if any(np.array_equal(wn, x) for x in W):
            Wa.pop()
            Wb.pop()
            break
        W.append(wn)
        if len(W) > 4:
            # cannot happen after pruning (at most 3 kept) but stay safe
            W = W[-4:]
            Wa = Wa[-4:]
            Wb = Wb[-4:]
    return {"lower": max(lower, 0.0), "upper": upper, "a": best[0], "b": best[1],
            "n": best_n, "iters": it + 1, "raw_lower": lower}


def point_shape_distance(x, S):
    from .shapes import Point
    r = refdist(Point(x), S)
    return r["lower"], r["upper"]


def penetration_upper_bound(A, B, dirs):
    """min over given unit directions of the extent of A-B: an UPPER bound of
    the penetration depth (valid for any set of directions)."""
    best = np.inf
    bn = None
    for n in dirs:
        e = A.h(n) + B.h(-n)
        if e < best:
            best = e
            bn = n
    return best, bn
