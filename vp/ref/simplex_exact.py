"""Exact minimum-norm point of the convex hull of 1..4 points (rationals).

Every float is a rational, so Fraction arithmetic gives the exact optimum:
brute force over the <= 15 vertex subsets; for each subset solve the KKT
system of  min |sum l_i p_i|^2, sum l_i = 1  exactly; keep subsets with
l >= 0; the minimum over those is the global optimum (the optimal face is one
of the subsets, and every feasible candidate is a point of the hull).
"""
import itertools
from fractions import Fraction

_SUBSETS = {k: [c for r in range(1, k + 1) for c in itertools.combinations(range(k), r)]
            for k in range(1, 5)}


def _solve(M, b):
    """Gaussian elimination over Fractions; returns None if singular."""
    n = len(M)
    A = [row[:] + [b[i]] for i, row in enumerate(M)]
    for c in range(n):
        p = None
        for r in range(c, n):
            if A[r][c] != 0:
                p = r
                break
        if p is None:
            return None
        A[c], A[p] = A[p], A[c]
        piv = A[c][c]
        for r in range(n):
            if r != c and A[r][c] != 0:
                f = A[r][c] / piv
                A[r] = [x - f * y for x, y in zip(A[r], A[c])]
    return [A[i][n] / A[i][i] for i in range(n)]


def exact_min_norm(points):
    """points: list of k lists of 3 numbers (float or int), k in 1..4.
    Returns (norm2 Fraction, v list[Fraction], optimal_subsets) where
    optimal_subsets lists (subset, lambdas) attaining the minimum."""
    P = [[Fraction(x) for x in p] for p in points]
    k = len(P)
    G = [[sum(a * b for a, b in zip(P[i], P[j])) for j in range(k)] for i in range(k)]
    best = None
    cands = []
    for sub in _SUBSETS[k]:
        m = len(sub)
        if m == 1:
            lam = [Fraction(1)]
        else:
            M = [[G[sub[i]][sub[j]] for j in range(m)] + [Fraction(1)] for i in range(m)]
            M.append([Fraction(1)] * m + [Fraction(0)])
            sol = _solve(M, [Fraction(0)] * m + [Fraction(1)])
            if sol is None:
                continue
            lam = sol[:m]
            if any(l < 0 for l in lam):
                continue
        n2 = sum(lam[i] * lam[j] * G[sub[i]][sub[j]] for i in range(m) for j in range(m))
        cands.append((n2, sub, lam))
        if best is None or n2 < best:
            best = n2
    opt = [(sub, lam) for n2, sub, lam in cands if n2 == best]
    sub, lam = opt[0]
    v = [sum(lam[i] * P[sub[i]][c] for i in range(len(sub))) for c in range(3)]
    return best, v, opt


def in_hull_exact(points, v_float, tol):
    """Is v (floats) within tol (float, absolute) of conv(points)?  Exact
    distance from v to the hull via the same brute force on shifted points."""
    shifted = [[Fraction(x) - Fraction(c) for x, c in zip(p, v_float)] for p in points]
    n2, _, _ = exact_min_norm(shifted)
    return n2 <= Fraction(tol) ** 2, n2
