"""Two-collider scenes with construction witnesses (DESIGN §5.3).

A scene is a dict:
  A, B      final specs
  family    free | gap | deep | aligned
  wit       construction witness:
              gap : {"n": unit normal from A to B, "a": point of A, "b": point of B, "g": gap}
              deep: {"c": common point, "depth": guaranteed inside depth in both}
  labels    list of class labels
The witness is *re-validated* with the reference shapes by truth(), so a
replayed scene does not depend on the generator.
"""
import numpy as np
from hypothesis import strategies as st

from . import atoms
from .colliders import specs, translate, label, KINDS
from ..ref.shapes import ref
from ..ref.refdist import refdist

FAMILIES = ["free", "gap", "deep", "aligned"]


def scale_L(A, B):
    """L = max(1, largest feature size, centre distance) from ref shapes."""
    return max(1.0, A.feature_size(), B.feature_size(),
               float(np.linalg.norm(A.center() - B.center())))


def _combo(points, weights):
    w = np.array(weights[:len(points)], dtype=float) + 1e-3
    w = w / w.sum()
    return w.dot(np.array(points))


_w = st.lists(st.sampled_from([0.0, 1.0, 0.5, 0.25]), min_size=8, max_size=8)

# gap as a multiple of L: touching, rounding-level, around tolerances, wide
GAP_FACTORS = [0.0, 1e-12, 1e-9, 1e-7, 1e-6, 5e-6, 2e-5, 1e-4, 1.05e-3, 2e-3,
               1e-2, 0.1, 1.0, 3.0]


@st.composite
def gap_scene(draw, kindA, kindB, gaps=None, rot_classes=None, margin=False,
              size_lo=1e-2, size_hi=1e2, shared_rotation=None, depth_fractions=None, **kw):
    sa = draw(specs(kindA, rot_classes=rot_classes, margin=margin,
                    size_lo=size_lo, size_hi=size_hi, **kw))
    sb = draw(specs(kindB, rot_classes=rot_classes, margin=margin,
                    size_lo=size_lo, size_hi=size_hi, **kw))
    share = draw(st.booleans()) if shared_rotation is None else shared_rotation
    if share and "R" in sa and "R" in sb and sb["kind"] != "sphere":
        P = np.array(draw(atoms.rot_signed_perm))
        sb = dict(sb, R=np.array(sa["R"]).dot(P).tolist())
    A = ref(sa)
    B0 = ref(sb)
    Rdir = sa.get("R", np.eye(3).tolist())
    n = atoms.unit(draw(atoms.directions_for(Rdir)))
    fa = _combo(A.support_set(n), draw(_w))
    fb = _combo(B0.support_set(-n), draw(_w))
    Lest = max(1.0, A.feature_size(), B0.feature_size(),
               A.bounding_radius() + B0.bounding_radius())
    gf = draw(st.sampled_from(gaps or GAP_FACTORS))
    g = gf * Lest
    t = fa + g * n - fb
    sb = translate(sb, t)
    return {"A": sa, "B": sb, "family": "gap",
            "wit": {"n": n.tolist(), "a": fa.tolist(), "b": (fb + t).tolist(),
                    "g": g, "gf": gf},
            "labels": ["gap", "gf:%g" % gf, "shared-rot" if share else "indep-rot"]}


DEPTH_FRACTIONS = [1.0, 0.5, 0.1, 1e-2, 2e-3]


@st.composite
def deep_scene(draw, kindA, kindB, rot_classes=None, margin=False,
               size_lo=1e-2, size_hi=1e2, depth_fractions=None, gaps=None, **kw):
    """A and B share a point c that is at least `depth` inside both (for a
    flat partner: c is a point of the flat set, depth refers to the solid)."""
    sa = draw(specs(kindA, rot_classes=rot_classes, margin=margin,
                    size_lo=size_lo, size_hi=size_hi, **kw))
    sb = draw(specs(kindB, rot_classes=rot_classes, margin=margin,
                    size_lo=size_lo, size_hi=size_hi, **kw))
    mode = draw(st.sampled_from(["inner", "centre", "identical", "shared-rot"]))
    if mode == "identical" and kindA == kindB:
        sb = dict(sa)
    elif mode == "shared-rot" and "R" in sa and "R" in sb and sb["kind"] != "sphere":
        P = np.array(draw(atoms.rot_signed_perm))
        sb = dict(sb, R=np.array(sa["R"]).dot(P).tolist())
    A = ref(sa)
    B = ref(sb)
    u3 = st.tuples(*[atoms.coord(-1, 1)] * 3)
    if mode in ("centre", "identical"):
        fa = fb = 0.0
    else:
        fa = 1.0 - draw(st.sampled_from(depth_fractions or DEPTH_FRACTIONS))
        fb = 1.0 - draw(st.sampled_from(depth_fractions or DEPTH_FRACTIONS))
    ca = A.inner_point(np.array(draw(u3)), fa)
    cb = B.inner_point(np.array(draw(u3)), fb)
    sb = translate(sb, ca - cb)
    depth = min((1 - fa) * A.inradius() if not A.flat else np.inf,
                (1 - fb) * B.inradius() if not B.flat else np.inf)
    if not np.isfinite(depth):
        depth = 0.0
    return {"A": sa, "B": sb, "family": "deep",
            "wit": {"c": ca.tolist(), "depth": float(depth)},
            "labels": ["deep", "mode:" + mode]}


@st.composite
def free_scene(draw, kindA, kindB, rot_classes=None, margin=False,
               size_lo=1e-2, size_hi=1e2, depth_fractions=None, gaps=None, **kw):
    sa = draw(specs(kindA, rot_classes=rot_classes, margin=margin,
                    size_lo=size_lo, size_hi=size_hi, **kw))
    sb = draw(specs(kindB, rot_classes=rot_classes, margin=margin,
                    size_lo=size_lo, size_hi=size_hi, **kw))
    A = ref(sa)
    B = ref(sb)
    # place B's centre at a random offset comparable to the sizes
    u = atoms.unit(draw(atoms.dir_random))
    f = draw(st.sampled_from([0.0, 0.3, 0.8, 1.0, 1.2, 2.0, 5.0]))
    r = f * (A.bounding_radius() + B.bounding_radius())
    sb = translate(sb, A.center() + r * u - B.center())
    return {"A": sa, "B": sb, "family": "free", "wit": {},
            "labels": ["free", "f:%g" % f]}


@st.composite
def aligned_scene(draw, kindA, kindB, margin=False, depth_fractions=None, gaps=None, **kw):
    """signed-permutation rotations, lattice positions, integer-ish sizes"""
    isz = st.sampled_from([1.0, 2.0, 0.5, 4.0, 0.25])
    quarter = st.integers(-12, 12).map(lambda i: 0.25 * i)
    pos_quarter = st.tuples(quarter, quarter, quarter).map(list)

    def mk(kind):
        s = draw(specs(kind, rot_classes=("identity", "perm"), margin=margin, **kw))
        for k in ("radius", "height", "length"):
            if k in s:
                s[k] = draw(isz)
        for k in ("radii", "size"):
            if k in s:
                s[k] = [draw(isz) for _ in s[k]]
        if kind in ("hull", "mesh"):
            V = [[a * 0.5, b * 0.5, c * 0.5]
                 for a in (-1, 1) for b in (-1, 1) for c in (-1, 1)]
            sc = draw(isz)
            V = (np.array(V) * sc)
            if kind == "hull":
                p = np.array(draw(atoms.pos_lattice))
                s["vertices"] = (V + p).tolist()
            else:
                s["vertices"] = V.tolist()
            s["vcls"] = "lattice"
        if "p" in s:
            s["p"] = draw(st.one_of(atoms.pos_lattice.map(lambda v: [x * 0.5 for x in v]), pos_quarter))
        return s
    sa = mk(kindA)
    sb = mk(kindB)
    return {"A": sa, "B": sb, "family": "aligned", "wit": {},
            "labels": ["aligned"]}


def apply_offset(scene, off):
    if not any(off):
        return scene
    s = dict(scene)
    s["A"] = translate(scene["A"], off)
    s["B"] = translate(scene["B"], off)
    w = dict(scene["wit"])
    for k in ("a", "b", "c"):
        if k in w:
            w[k] = (np.array(w[k]) + np.array(off)).tolist()
    s["wit"] = w
    s["labels"] = scene["labels"] + ["far"]
    return s


def scenes(kindA, kindB, families=FAMILIES, far=True, **kw):
    m = {"free": free_scene, "gap": gap_scene, "deep": deep_scene,
         "aligned": aligned_scene}
    base = st.one_of(*[m[f](kindA, kindB, **kw) for f in families])
    if far:
        return st.builds(apply_offset, base, atoms.far_offsets())
    return base


# ------------------------------------------------------------------ truth

def truth(scene, need_points=True):
    """Independent truth for a scene from reference shapes only.

    Returns dict: A, B (RefShape), L, lo, hi (certified distance interval),
    a, b (reference points realising hi), n (separating direction or None),
    overlap_depth (certified: a common point at least this deep inside both;
    0.0 if not certified), witness_ok.
    """
    A = ref(scene["A"])
    B = ref(scene["B"])
    L = scale_L(A, B)
    wit = scene.get("wit") or {}
    out = {"A": A, "B": B, "L": L, "overlap_depth": 0.0, "common": None}
    if "n" in wit:
        n = np.array(wit["n"])
        a = np.array(wit["a"])
        b = np.array(wit["b"])
        lo = -(A.h(n) + B.h(-n))           # B lies beyond A along n
        tiny = 1e-12 * L
        ok = A.sdist(a)[0] <= tiny and B.sdist(b)[0] <= tiny
        hi = float(np.linalg.norm(a - b))
        if ok and hi - max(lo, 0.0) <= 1e-9 * L:
            out.update(lo=max(lo, 0.0), hi=hi, a=a, b=b, n=n, source="construction")
            return out
    if "c" in wit and wit.get("depth", 0.0) >= 0.0:
        c = np.array(wit["c"])
        da = A.sdist(c)
        db = B.sdist(c)
        tiny = 1e-12 * L
        if da[1] <= tiny and db[1] <= tiny:
            depth = 0.0
            if not A.flat and not B.flat:
                depth = max(0.0, min(-da[1], -db[1]))
            elif A.flat and not B.flat:
                depth = max(0.0, -db[1])
            elif B.flat and not A.flat:
                depth = max(0.0, -da[1])
            out.update(lo=0.0, hi=0.0, a=c, b=c, n=None, overlap_depth=depth,
                       common=c, source="construction")
            return out
    r = refdist(A, B, scale=L)
    out.update(lo=r["lower"], hi=r["upper"], a=r["a"], b=r["b"], n=r["n"],
               source="refdist", iters=r["iters"])
    return out
