"""Collider specs: Hypothesis strategies, library object builders.

spec = {"kind", "R", "p", sizes..., "vertices"?, "margin"?}; see vp/ref/shapes.
build(spec) calls the public constructor exactly as the docstring prescribes
with fresh C-contiguous float64 arrays.
"""
import math

import numpy as np
from hypothesis import strategies as st

from . import atoms

KINDS = ["sphere", "ellipsoid", "capsule", "cylinder", "cone", "box", "disk",
         "ellipse", "mesh", "hull"]
SOLID_SMOOTH = ["sphere", "ellipsoid", "capsule", "cylinder", "cone"]
POLYTOPES = ["box", "mesh", "hull"]
FLAT = ["disk", "ellipse"]


def pose_matrix(R, p):
    T = np.eye(4)
    T[:3, :3] = np.asarray(R, dtype=float)
    T[:3, 3] = np.asarray(p, dtype=float)
    return np.ascontiguousarray(T)


# ------------------------------------------------------------ vertex clouds

def _sphere_points(n, seed_vals, radius):
    pts = []
    for i in range(n):
        v = np.array(seed_vals[3 * i:3 * i + 3])
        nv = np.linalg.norm(v)
        if nv < 1e-3:
            v = np.array([1.0, 0.0, 0.0])
            nv = 1.0
        pts.append(v / nv * radius)
    return pts


@st.composite
def vertex_clouds(draw, lo=1e-2, hi=1e2, degenerate=False, max_n=24):
    """Vertices (list of [x,y,z]) with spread in [lo, hi], centred near 0.
    Classes: on-sphere (all extreme), in-ball (interior points), lattice prism
    (coplanar faces), tetrahedron; with degenerate=True also needles/plates/
    single vertex/segment/planar."""
    scale = draw(atoms.sizes(lo, hi))
    classes = ["sphere", "ball", "lattice", "tetra"]
    if degenerate:
        classes += ["needle", "plate", "single", "segment", "planar"]
    cls = draw(st.sampled_from(classes))
    f = atoms.coord(-1.0, 1.0)
    if cls == "tetra":
        n = 4
    elif cls == "single":
        n = 1
    elif cls == "segment":
        n = 2
    else:
        n = draw(st.integers(4, max_n))
    if cls == "lattice":
        sz = [draw(st.sampled_from([0.5, 1.0, 0.25])) for _ in range(3)]
        V = [[a * sz[0], b * sz[1], c * sz[2]]
             for a in (-1, 1) for b in (-1, 1) for c in (-1, 1)]
        # optional duplicate / face-centre / edge-midpoint extra vertices
        extra = draw(st.lists(st.tuples(*[st.sampled_from([-1.0, 0.0, 1.0])] * 3),
                              max_size=4))
        V += [[e[0] * sz[0], e[1] * sz[1], e[2] * sz[2]] for e in extra]
        V = (np.array(V) * scale).tolist()
        return {"cls": cls, "V": V}
    vals = draw(st.lists(f, min_size=3 * n, max_size=3 * n))
    if cls in ("sphere", "tetra"):
        V = _sphere_points(n, vals, 1.0)
        if cls == "tetra":
            # make sure it has volume: fall back to a regular one
            M = np.array(V)
            vol = abs(np.linalg.det(M[1:] - M[0]))
            if vol < 1e-2:
                V = [[1, 1, 1], [1, -1, -1], [-1, 1, -1], [-1, -1, 1]]
                V = (np.array(V, dtype=float) / math.sqrt(3)).tolist()
    else:
        V = [vals[3 * i:3 * i + 3] for i in range(n)]
    V = np.array(V, dtype=float)
    if cls == "needle":
        V = V * np.array([1.0, 1e-4, 1e-4])
    elif cls == "plate":
        V = V * np.array([1.0, 1.0, 1e-4])
    elif cls == "planar":
        V = V * np.array([1.0, 1.0, 0.0])
    elif cls == "segment":
        if np.linalg.norm(V[0] - V[1]) < 1e-3:
            V = np.array([[0.0, 0, -1], [0.0, 0, 1]])
    V = V * scale
    return {"cls": cls, "V": V.tolist()}


def hull_vertices_only(V):
    """Keep only the extreme vertices (a well-formed convex mesh references
    every vertex in some triangle; interior or duplicate points are dropped)."""
    from scipy.spatial import ConvexHull
    V = np.asarray(V, dtype=float)
    # the domain requires triangles of non-zero area: vertices closer than
    # 1e-6 of the spread to an earlier vertex are dropped
    spread = max(float(np.max(np.linalg.norm(V - V.mean(axis=0), axis=1))), 1e-300)
    keep = []
    for v in V:
        if all(np.linalg.norm(v - w) > 1e-6 * spread for w in keep):
            keep.append(v)
    if len(keep) >= 4:
        V = np.array(keep)
    for _ in range(5):
        ch = ConvexHull(V - V.mean(axis=0))
        keep = np.unique(ch.simplices)
        if len(keep) == len(V):
            break
        V = V[keep]
    return V.tolist()


def _full_rank(V):
    V = np.asarray(V, dtype=float)
    if len(V) < 4:
        return False
    s = np.linalg.svd(V - V.mean(axis=0), compute_uv=False)
    return bool(s[2] > 1e-6 * max(s[0], 1e-300))


# -------------------------------------------------------------------- specs

@st.composite
def specs(draw, kind, rot_classes=None, size_lo=1e-2, size_hi=1e2,
          pos_radius=10.0, margin=False, degenerate_hulls=False,
          max_vertices=24):
    rot = atoms.rotations(rot_classes) if rot_classes else atoms.rotations()
    sz = atoms.sizes(size_lo, size_hi)
    spec = {"kind": kind}
    if kind != "hull":
        spec["R"] = draw(rot)
        spec["p"] = draw(atoms.positions(pos_radius))
    if kind == "sphere":
        spec["R"] = np.eye(3).tolist()
        spec["radius"] = draw(sz)
    elif kind == "ellipsoid":
        r0 = draw(sz)
        mode = draw(st.sampled_from(["free", "sphere-like", "spheroid"]))
        if mode == "free":
            spec["radii"] = [r0, draw(sz), draw(sz)]
        elif mode == "sphere-like":
            spec["radii"] = [r0, r0, r0]
        else:
            spec["radii"] = [r0, r0, draw(sz)]
    elif kind == "capsule":
        spec["radius"] = draw(sz)
        spec["height"] = draw(sz)
    elif kind == "cylinder":
        r = draw(sz)
        spec["radius"] = r
        l = draw(st.one_of(sz, st.just(min(max(2 * r, size_lo), size_hi))))
        spec["length"] = l
    elif kind == "cone":
        spec["radius"] = draw(sz)
        spec["height"] = draw(sz)
    elif kind == "box":
        a = draw(sz)
        mode = draw(st.sampled_from(["free", "cube", "square"]))
        if mode == "free":
            spec["size"] = [a, draw(sz), draw(sz)]
        elif mode == "cube":
            spec["size"] = [a, a, a]
        else:
            spec["size"] = [a, a, draw(sz)]
    elif kind == "disk":
        spec["radius"] = draw(sz)
    elif kind == "ellipse":
        r0 = draw(sz)
        spec["radii"] = [r0, draw(st.one_of(sz, st.just(r0)))]
    elif kind == "mesh":
        vc = draw(vertex_clouds(size_lo, size_hi, degenerate=False,
                                max_n=max_vertices))
        V = vc["V"]
        if not _full_rank(V):
            V = (np.array([[1, 1, 1], [1, -1, -1], [-1, 1, -1], [-1, -1, 1.0]])
                 * draw(sz)).tolist()
            vc["cls"] = "tetra"
        V = hull_vertices_only(V)
        # optionally one strictly interior vertex that no triangle references
        # (point clouds passed through make_convex_mesh keep such vertices),
        # close to a face and possibly at index 0
        where = draw(st.sampled_from(["none", "first", "first", "last"]))
        if where != "none":
            Va = np.array(V, dtype=float)
            tri = mesh_triangles(Va)
            t = tri[draw(st.integers(0, len(tri) - 1))]
            inner = 0.97 * Va[t].mean(axis=0) + 0.03 * Va.mean(axis=0)
            V = ([inner.tolist()] + V) if where == "first" else (V + [inner.tolist()])
            vc["cls"] += "+interior-" + where
        spec["vertices"] = V
        spec["vcls"] = vc["cls"]
    elif kind == "hull":
        vc = draw(vertex_clouds(size_lo, size_hi, degenerate=degenerate_hulls,
                                max_n=max_vertices))
        R = np.array(draw(rot))
        p = np.array(draw(atoms.positions(pos_radius)))
        V = np.array(vc["V"]).dot(R.T) + p
        spec["vertices"] = V.tolist()
        spec["vcls"] = vc["cls"]
    else:
        raise ValueError(kind)
    if margin and draw(st.integers(0, 3)) == 0:
        spec["margin"] = draw(atoms.sizes(1e-2, 10.0))
    return spec


def translate(spec, t):
    """Return a copy of spec moved by world vector t."""
    t = np.asarray(t, dtype=float)
    s = dict(spec)
    if spec["kind"] == "hull":
        s["vertices"] = (np.asarray(spec["vertices"], dtype=float) + t).tolist()
    else:
        s["p"] = (np.asarray(spec["p"], dtype=float) + t).tolist()
    return s


def transform(spec, G, t, scale=1.0):
    """Spec moved by x -> scale * G x + t (G rotation)."""
    G = np.asarray(G, dtype=float)
    t = np.asarray(t, dtype=float)
    s = dict(spec)
    if spec["kind"] == "hull":
        V = np.asarray(spec["vertices"], dtype=float)
        s["vertices"] = (scale * V.dot(G.T) + t).tolist()
    else:
        s["R"] = G.dot(np.asarray(spec["R"], dtype=float)).tolist()
        s["p"] = (scale * G.dot(np.asarray(spec["p"], dtype=float)) + t).tolist()
        if spec["kind"] == "mesh":
            s["vertices"] = (scale * np.asarray(spec["vertices"], dtype=float)).tolist()
    for k in ("radius", "height", "length", "margin"):
        if k in spec:
            s[k] = spec[k] * scale
    for k in ("radii", "size"):
        if k in spec:
            s[k] = [v * scale for v in spec[k]]
    return s


def feature_size(spec):
    from ..ref.shapes import ref
    return ref(spec).feature_size()


# ------------------------------------------------------------------- build

def mesh_triangles(V):
    """Outward-oriented hull triangles of mesh-frame vertices (harness-side
    qhull, same recipe as the documented mesh.make_convex_mesh)."""
    from scipy.spatial import ConvexHull
    V = np.asarray(V, dtype=float)
    Vc = V - V.mean(axis=0)
    ch = ConvexHull(Vc)
    tri = ch.simplices.copy()
    f = Vc[tri]
    nrm = np.cross(f[:, 1] - f[:, 0], f[:, 2] - f[:, 0])
    cen = f.mean(axis=1)
    flip = np.einsum("ij,ij->i", nrm, cen) < 0
    tri[flip] = tri[flip][:, ::-1]
    return np.ascontiguousarray(tri)


def build(spec, with_margin=True):
    """Library collider for a spec (imports distance3d lazily)."""
    from distance3d import colliders as C
    k = spec["kind"]
    if k == "hull":
        obj = C.ConvexHullVertices(
            np.ascontiguousarray(np.array(spec["vertices"], dtype=float)))
    else:
        T = pose_matrix(spec["R"], spec["p"])
        if k == "sphere":
            obj = C.Sphere(np.ascontiguousarray(T[:3, 3].copy()), float(spec["radius"]))
        elif k == "ellipsoid":
            obj = C.Ellipsoid(T, np.array(spec["radii"], dtype=float))
        elif k == "capsule":
            obj = C.Capsule(T, float(spec["radius"]), float(spec["height"]))
        elif k == "cylinder":
            obj = C.Cylinder(T, float(spec["radius"]), float(spec["length"]))
        elif k == "cone":
            obj = C.Cone(T, float(spec["radius"]), float(spec["height"]))
        elif k == "box":
            obj = C.Box(T, np.array(spec["size"], dtype=float))
        elif k == "disk":
            obj = C.Disk(np.ascontiguousarray(T[:3, 3].copy()), float(spec["radius"]),
                         np.ascontiguousarray(T[:3, 2].copy()))
        elif k == "ellipse":
            obj = C.Ellipse(np.ascontiguousarray(T[:3, 3].copy()),
                            np.ascontiguousarray(T[:3, :2].T.copy()),
                            np.array(spec["radii"], dtype=float))
        elif k == "mesh":
            V = np.ascontiguousarray(np.array(spec["vertices"], dtype=float))
            tri = mesh_triangles(V)
            obj = C.MeshGraph(T, V, tri)
        else:
            raise ValueError(k)
    if with_margin and spec.get("margin"):
        obj = C.Margin(obj, float(spec["margin"]))
    return obj


def label(spec):
    from .atoms import rotation_class
    lab = [spec["kind"]]
    if "R" in spec:
        lab.append("rot:" + rotation_class(spec["R"]))
    if spec.get("margin"):
        lab.append("margin")
    if "vcls" in spec:
        lab.append("v:" + spec["vcls"])
    return lab
