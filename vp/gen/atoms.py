"""Hypothesis atoms: rotations, sizes, positions, directions.

All strategies return plain Python floats / nested lists (JSON-serialisable).
Ordered so that shrinking ends at identity / unit size / origin / e_z.
"""
import itertools
import math

import numpy as np
from hypothesis import strategies as st

# ---------------------------------------------------------------- rotations


def _signed_perms():
    out = []
    for perm in itertools.permutations(range(3)):
        for signs in itertools.product([1.0, -1.0], repeat=3):
            M = np.zeros((3, 3))
            for i in range(3):
                M[i, perm[i]] = signs[i]
            if np.linalg.det(M) > 0:
                out.append(M)
    out.sort(key=lambda M: (not np.array_equal(M, np.eye(3)), M.tolist()))
    return out


SIGNED_PERMS = _signed_perms()   # 24, identity first
SPECIAL_ANGLES = [math.pi / 2, -math.pi / 2, math.pi, math.pi / 4, math.pi / 3,
                  1e-3, 1e-6, 1e-8, -1e-8, 1e-10]


def axis_angle(axis, angle):
    c, s = math.cos(angle), math.sin(angle)
    if axis == 0:
        return np.array([[1, 0, 0], [0, c, -s], [0, s, c]], dtype=float)
    if axis == 1:
        return np.array([[c, 0, s], [0, 1, 0], [-s, 0, c]], dtype=float)
    return np.array([[c, -s, 0], [s, c, 0], [0, 0, 1]], dtype=float)


def quat_matrix(q):
    q = np.asarray(q, dtype=float)
    n = np.linalg.norm(q)
    if n < 1e-6:
        return np.eye(3)
    w, x, y, z = q / n
    return np.array([
        [1 - 2 * (y * y + z * z), 2 * (x * y - z * w), 2 * (x * z + y * w)],
        [2 * (x * y + z * w), 1 - 2 * (x * x + z * z), 2 * (y * z - x * w)],
        [2 * (x * z - y * w), 2 * (y * z + x * w), 1 - 2 * (x * x + y * y)]])


def coord(lo=-1.0, hi=1.0):
    """floats in [lo, hi]; magnitudes below 1e-30 become exact zero (values
    whose squares - or the squares of whose products, e.g. a rotation entry
    times a direction component - underflow are not generated, DESIGN 8.3)"""
    return st.floats(min_value=lo, max_value=hi, allow_nan=False,
                     allow_infinity=False, width=64).map(
        lambda x: 0.0 if abs(x) < 1e-30 else x)


def _unitf(lo=-1.0, hi=1.0):
    return coord(lo, hi)


rot_identity = st.just(np.eye(3))
rot_signed_perm = st.sampled_from(SIGNED_PERMS)
rot_special = st.builds(axis_angle, st.integers(0, 2),
                        st.sampled_from(SPECIAL_ANGLES))
rot_small_tilt = st.builds(
    lambda ax, e, m: axis_angle(ax, m * 10.0 ** e),
    st.integers(0, 2), st.floats(-12, -1), st.sampled_from([1.0, -1.0]))
rot_random = st.builds(quat_matrix, st.tuples(_unitf(), _unitf(), _unitf(), _unitf()))
rot_near_aligned = st.builds(lambda P, T: P.dot(T), rot_signed_perm, rot_small_tilt)
rot_composed = st.builds(lambda A, B: A.dot(B), rot_random,
                         st.one_of(rot_signed_perm, rot_special))


def _clean_rotation(M):
    """entries below 1e-30 become exact zeros (see flush_tiny)"""
    M = np.array(M, dtype=float)
    M[np.abs(M) < 1e-30] = 0.0
    return M.tolist()


def is_signed_perm(R, tol=0.0):
    R = np.asarray(R)
    return bool(np.all((np.abs(R) <= tol) | (np.abs(np.abs(R) - 1.0) <= tol)))


def rotations(classes=("identity", "perm", "special", "near", "random", "composed")):
    m = {"identity": rot_identity, "perm": rot_signed_perm, "special": rot_special,
         "near": rot_near_aligned, "random": rot_random, "composed": rot_composed,
         "tilt": rot_small_tilt}
    return st.one_of(*[m[c] for c in classes]).map(_clean_rotation)


def rotation_class(R):
    R = np.asarray(R)
    if np.array_equal(R, np.eye(3)):
        return "identity"
    if is_signed_perm(R):
        return "perm"
    if is_signed_perm(R, 1e-3):
        return "near-aligned"
    return "general"


# -------------------------------------------------------------------- sizes

def sizes(lo=1e-2, hi=1e2):
    """log-uniform feature size in [lo, hi] plus end points and 1.0"""
    specials = [v for v in (1.0, lo, hi, 0.5, 2.0, 10.0, 0.1) if lo <= v <= hi]
    return st.one_of(
        st.sampled_from(specials),
        st.floats(math.log(lo), math.log(hi)).map(
            lambda t: min(max(math.exp(t), lo), hi)))


def moderate_sizes(lo=0.2, hi=5.0):
    return sizes(lo, hi)


# ---------------------------------------------------------------- positions

lattice_coord = st.integers(-2, 2).map(float)
pos_lattice = st.tuples(lattice_coord, lattice_coord, lattice_coord).map(list)


def _flush_abs(v, thr=1e-30):
    return [0.0 if abs(x) < thr else float(x) for x in v]


def pos_ball(radius=10.0):
    f = coord(-radius, radius)
    return st.tuples(f, f, f).map(list)


def positions(radius=10.0):
    return st.one_of(st.just([0.0, 0.0, 0.0]), pos_lattice, pos_ball(radius))


def far_offsets(maxnorm=900.0):
    """scene offsets: none, or a lattice direction scaled to |p| ~ maxnorm"""
    def mk(v, s):
        v = np.array(v, dtype=float)
        n = np.linalg.norm(v)
        if n == 0:
            return [0.0, 0.0, 0.0]
        return (v / n * s).tolist()
    return st.one_of(
        st.just([0.0, 0.0, 0.0]),
        st.builds(mk, pos_lattice, st.floats(100.0, maxnorm)))


# --------------------------------------------------------------- directions

_AXES = [[0.0, 0.0, 1.0], [1.0, 0.0, 0.0], [0.0, 1.0, 0.0],
         [0.0, 0.0, -1.0], [-1.0, 0.0, 0.0], [0.0, -1.0, 0.0]]
_ZERO_COMP = [list(map(float, v)) for v in itertools.product([-1, 0, 1], repeat=3)
              if any(v) and 0 in v and sum(map(abs, v)) > 1]

dir_axis = st.sampled_from(_AXES)
dir_zero_comp = st.sampled_from(_ZERO_COMP)
def flush_tiny(v, rel=1e-30):
    """Components below rel*|v| become exact zeros: squares of such values
    underflow in any hypot-style formula; exact zeros and ordinary small
    values (1e-12) are generated instead (DESIGN 8.3)."""
    m = max(abs(x) for x in v)
    return [0.0 if abs(x) < rel * m else float(x) for x in v]


dir_random = st.tuples(_unitf(), _unitf(), _unitf()).map(list).map(flush_tiny).filter(
    lambda v: v[0] * v[0] + v[1] * v[1] + v[2] * v[2] > 1e-6)


def _normalize(v):
    v = np.asarray(v, dtype=float)
    return (v / np.linalg.norm(v)).tolist()


def directions_world():
    """non-zero world directions (not normalised in general)"""
    return st.one_of(dir_axis, dir_zero_comp, dir_random,
                     dir_random.map(_normalize),
                     st.builds(lambda v, s: (np.asarray(v) * s).tolist(),
                               dir_random, st.sampled_from([1e-3, 1e3, 7.0])))


def directions_for(R):
    """directions special w.r.t. a shape rotation R: its axes, axes tilted by
    1e-12..1e-3, in-plane directions, plus world classes."""
    R = np.asarray(R, dtype=float)

    def local(v):
        return R.dot(np.asarray(v, dtype=float)).tolist()

    def tilted(ax, other, e, sgn):
        v = np.array(_AXES[ax]) + sgn * 10.0 ** e * np.array(_AXES[other])
        return local(v)

    return st.one_of(
        dir_axis.map(local),
        dir_zero_comp.map(local),
        st.builds(tilted, st.integers(0, 5), st.integers(0, 5),
                  st.floats(-12, -3), st.sampled_from([1.0, -1.0])).filter(
            lambda v: float(np.linalg.norm(v)) > 1e-6),
        directions_world())


def unit(v):
    v = np.asarray(v, dtype=float)
    return v / np.linalg.norm(v)
