#!/bin/bash
# usage: seed_run.sh <PROP>-<mN> [extra check args]   runs the property's quick check against the patch
# in a scratch worktree (VP_REPO), writes /verif/seeded/<PROP>-<mN>/check.log
S=$1; shift
P=${SEED_PROP:-${S%%-*}}
D=/verif/seeded/$S
WT=/tmp/se/$S
mkdir -p /tmp/se
rm -rf "$WT"; git -C /repo worktree prune
git -C /repo worktree add -q --detach "$WT" HEAD || exit 2
if ! git -C "$WT" apply "$D/patch.diff" 2> "$D/apply.err"; then
  echo "PATCH DOES NOT APPLY on $(git -C /repo rev-parse --short HEAD)" > "$D/check.log"
  git -C /repo worktree remove --force "$WT"; cat "$D/check.log"; exit 3
fi
cd /verif
t0=$(date +%s)
VP_REPO=$WT VP_WORKERS=${VP_WORKERS:-8} ./check $P --tier quick --no-evidence "$@" > "$D/check.out" 2>&1
rc=$?
t1=$(date +%s)
{
 echo "repo_head $(git -C /repo rev-parse --short HEAD) verif_head $(git -C /verif rev-parse --short HEAD)"
 echo "cmd: VP_REPO=<worktree+patch> ./check $P --tier quick $*"
 echo "exit=$rc wall=$((t1-t0))s"
 grep -A1 "^VIOLATION" "$D/check.out" | head -12
 tail -1 "$D/check.out"
} > "$D/check.log"
git -C /repo worktree remove --force "$WT"
rm -rf /verif/.cache/numba/*-$(cd /verif && VP_REPO=$WT /venv/bin/python -c "print(0)" >/dev/null 2>&1; echo none) 2>/dev/null
cat "$D/check.log"
