#!/usr/bin/env python3
"""Regenerate MANIFEST.json from the table below (run from /verif)."""
import json, os
HERE = os.path.dirname(os.path.dirname(os.path.abspath(__file__)))
CHECKS = {
 "C01": ("property-based testing (Hypothesis scenes) vs construction witnesses and a certified reference GJK",
         "generated-input search over all 100 ordered collider pairs and four scene families against an independent oracle; held on everything explored"),
 "C02": ("property-based testing (Hypothesis): scenes that are clear by construction (separating plane / common interior point) or by certified reference GJK, all boolean tests + distance query",
         "generated-input search; every asserted scene carries an independent witness of 'gap >= delta' or 'overlap >= delta'; one open known finding (MPR on coplanar flat pairs)"),
 "C03": ("property-based testing (Hypothesis): collider specs x direction sequences vs closed-form support values and signed-distance bounds; mesh history vs fresh object",
         "generated-input search over all collider kinds, poses and special directions against closed-form reference support functions; held on everything explored"),
 "C04": ("property-based testing (Hypothesis): AABB bounds vs closed-form support values along +-e_i; RigidBody vs world-frame vertex bounds; overlap consequence on constructed overlapping scenes",
         "generated-input search against a closed-form oracle that decides enclosure and tightness at once; one open known finding (ellipsoid_aabb)"),
 "C06": ("model-based testing: Hypothesis-generated URDF robots (grammar) + extra colliders, op lists of joint moves / re-posed frames / queries; brute-force AABB overlap, reference-shape poses, all-pairs reference GJK for self-collision (clear cases only)",
         "generated histories against brute-force and reference oracles after every step; held on everything explored"),
 "C19": ("property-based testing (Hypothesis) with a harness-owned clock: support-evaluation counters shadowed on collider instances (budget 1000), and interpreted-mode runs under a sys.monitoring LINE|JUMP|BRANCH event budget; finiteness and exception contract",
         "bounded form of termination decided deterministically (no wall clock); generated extreme / degenerate scenes; two open known findings (C19-K1, C19-K3: EPA on an incomplete simplex / default capacity)"),
 "C07": ("property-based testing (Hypothesis): overlapping scenes, gjk -> epa protocol, vs exact qhull penetration depth (polytope pairs) and certified bounds (smooth pairs); both simplex windings",
         "generated-input search with an exact oracle for polytopes; two open known findings (GJK hands over an incomplete simplex; default face capacity)"),
 "C08": ("property-based testing (Hypothesis): overlapping scenes, mpr_penetration vs exact qhull penetration depth (polytopes) / ball-witness bounds, translation test, contact membership",
         "generated-input search with lower-bound witnesses for every reported violation; three open known findings on the contact position"),
 "C09": ("property-based testing (Hypothesis) + coverage-guided fuzzing (atheris, thorough tier): C01 scenes vs original GJK (points, consistency, optimality) and Nesterov variants (value); iteration helpers on fresh objects",
         "generated-input search against construction witnesses / certified reference GJK; one open known finding for use_nesterov_acceleration=True (iteration limit)"),
 "C10": ("property-based testing (Hypothesis) + coverage-guided fuzzing of the line/box case tree (atheris, thorough tier): all 34 functions x placement families; closed-form point-to-primitive residuals and consistency",
         "generated-input search over all exported functions and degenerate placement families with closed-form membership oracles; two open known findings (disk_to_disk, circle functions)"),
 "C11": ("property-based testing (Hypothesis) + coverage-guided fuzzing of the line/box case tree (atheris, thorough tier): same cases; certified reference GJK interval (convex pairs), closed forms (line/plane pairs), exhaustive 1-D search (circle); epsilon bands measured and excluded",
         "generated-input search; a violation always carries a closer pair of points; three open known findings (disk_to_disk, line_segment_to_circle, line_to_circle)"),
 "C12": ("metamorphic property-based testing (Hypothesis): base scene + transform (argument swap, rigid motion, uniform scale); image rebuilt from transformed specs; scalar outputs compared within the summed tolerances, booleans on clear scenes, points only for unique optima",
         "generated-input search with metamorphic oracles over the queries of C01, C02, C07-C11; two open known findings"),
 "C13": ("property-based testing (Hypothesis): batches of points constructed at guaranteed depth / exact outside distance k*1e-9*L relative to closed-form reference shapes; cross-checks with point_to_<shape> and support functions",
         "generated-input search with constructed ground truth on both sides of the boundary; held on everything explored"),
 "C15": ("property-based testing (Hypothesis): single tetrahedron pairs (random, lattice corner, factory) and body pairs of all factories (stacked, overlapping, disjoint); own barycentric solve, plane residual, convexity, force direction, swap symmetry",
         "generated-input search with geometric oracles that bound the polygon from outside as the property states; held on everything explored"),
 "C16": ("metamorphic property-based testing (Hypothesis): body pairs at general poses; relations action-reaction, argument swap, common rigid motion, repeated and interleaved calls on the same objects, tree vs brute-force broad phase",
         "generated-input search with metamorphic oracles (no reference model needed); two open known findings traced to unstable contact polygons"),
 "C17": ("property-based testing (Hypothesis): factory parameters incl. class boundaries; determinant volumes with exact rational sign for slivers, qhull volume, point-in-exactly-one-tetrahedron partition test, analytic signed distance for vertices/potentials, helper recomputation",
         "generated-input search with independent geometric oracles; held on everything explored"),
 "C18": ("exhaustive enumeration of the {-1,0,1} lattice (thorough: all 551880 configurations) + coverage-guided fuzzing (atheris, thorough tier) + Hypothesis (lattice {-2..2}, scaled, near-degenerate, duplicates) against an exact rational (Fraction) brute-force oracle; both solvers",
         "finite sub-domain enumerated completely in the thorough tier (quick: one residue class mod 16) plus generated-input search; exact oracle; two open known findings (absolute epsilons of both solvers on small or nearly flat configurations)"),
 "C14": ("model-based testing: Hypothesis-generated update_pose/query histories vs a freshly constructed collider at the last pose",
         "generated operation sequences (poses as fresh arrays or stack items) against a fresh-object oracle after every query; held on everything explored"),
 "C20": ("differential testing: Hypothesis-generated call lists executed by three fresh interpreters (numba JIT, NUMBA_DISABLE_JIT=1, NUMBA_BOUNDSCHECK=1) and compared record by record",
         "generated-input differential search over all jitted public entry points; held on everything explored"),
 "C05": ("model-based testing (+ coverage-guided fuzzing of histories with atheris in the thorough tier): Hypothesis-generated insertion/query histories vs list model with brute-force overlap; jit and boundscheck modes",
         "generated operation sequences against a reference model with structural invariants after every step; held on everything explored"),
}
NOTES = {}
def main():
    props = [json.loads(l) for l in open(os.path.join(HERE, "properties.jsonl"))]
    man = {"version": 1, "setup_cmd": "./setup.sh",
           "hooks": {"guard": "DISTANCE3D_VERIF",
                     "enable": "no hooks are needed: checks import /repo's working tree directly (harness-side shims only, see DESIGN.md 2.1)",
                     "baseline_off_cmd": "cd /repo && /venv/bin/python -m pytest -ra -q -p no:cacheprovider --timeout=900 --continue-on-collection-errors",
                     "source_commits": [], "add_only": True},
           "engines": [{"name": "vp", "path": "vp/runner.py", "serves_properties": sorted(CHECKS),
                        "kind_free_text": "Hypothesis property-based / model-based testing over generated scenes and histories with independent reference oracles (vp/ref); 16 worker subprocesses; replay files re-evaluated without Hypothesis"}],
           "checks": [], "notes": "see DESIGN.md; known findings in known_findings.json", "not_applicable": []}
    for p in props:
        i = p["id"]
        if i in CHECKS:
            tech, text = CHECKS[i]
            man["checks"].append({
                "property_id": i, "quick_cmd": "./check %s --tier quick" % i,
                "thorough_cmd": "./check %s --tier thorough" % i,
                "evidence_file": "evidence/%s.json" % i,
                "replay_cmd_template": "./check %s --replay {path}" % i, "engine": "vp",
                "level_claimed": {"category": "exploration", "text": text,
                                  "design_ref": "DESIGN.md section 6, " + i},
                "level_note": NOTES.get(i, "trusted base: reference oracles in vp/ref (closed-form support functions, signed distances, certified reference GJK, qhull), harness shims numpy.row_stack and open3d mock; never proves absence"),
                "technique": tech})
        else:
            man["not_applicable"].append({"property_id": i, "reason": "check not built yet in this session (the technique applies; see DESIGN.md section 6)"})
    json.dump(man, open(os.path.join(HERE, "MANIFEST.json"), "w"), indent=1)
main()
