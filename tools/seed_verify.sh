#!/bin/bash
# usage: seed_verify.sh <PROP> <mN>   (reads /tmp/wt-out/<PROP>/<mN>, writes /verif/seeded/<PROP>-<mN>/)
# Confirms in a scratch worktree of /repo HEAD: patch applies, pinned tests pass,
# demo passes without the patch and fails with it.
P=$1; M=$2
SRC=/tmp/wt-out/$P/$M
DST=/verif/seeded/$P-$M
WT=/tmp/sv/$P-$M
mkdir -p /tmp/sv "$DST"
rm -rf "$WT"; git -C /repo worktree prune
git -C /repo worktree add -q --detach "$WT" HEAD || exit 2
cd "$WT" || exit 2
export NUMBA_CACHE_DIR=$WT/.nbcache PYTHONWARNINGS=ignore
res() { echo "$1" >> "$DST/verify.log"; }
: > "$DST/verify.log"
res "base $(git -C /repo rev-parse --short HEAD)"
# demo without patch
/venv/bin/python "$SRC/demo.py" > "$DST/demo_clean.out" 2>&1; c0=$?
res "demo clean exit=$c0"
if ! git apply --check "$SRC/patch.diff" 2>>"$DST/verify.log"; then
  res "PATCH DOES NOT APPLY to current HEAD"; ap=1
else
  git apply "$SRC/patch.diff"; ap=0
  /venv/bin/python "$SRC/demo.py" > "$DST/demo_patched.out" 2>&1; c1=$?
  res "demo patched exit=$c1"
  rm -rf "$WT/.nbcache"
  /venv/bin/python /verif/tools/baseline_check.py "$WT" > "$DST/baseline.out" 2>&1; b=$?
  res "baseline exit=$b $(head -1 $DST/baseline.out)"
fi
cp "$SRC/patch.diff" "$SRC/demo.py" "$DST/" 2>/dev/null
cp "$SRC/meta.json" "$DST/meta.agent.json" 2>/dev/null
cd /; git -C /repo worktree remove --force "$WT"
cat "$DST/verify.log"
