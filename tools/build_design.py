#!/usr/bin/env python3
"""Assemble DESIGN.md from its parts (docs/design_*.md) and the seed table."""
import os, subprocess
D = os.path.join(os.path.dirname(os.path.dirname(os.path.abspath(__file__))), "docs")
parts = [open(os.path.join(D, n)).read() for n in ("design_head.md", "design_sec45.md", "design_sec6.md", "design_sec8.md")]
table = subprocess.check_output(["python3", os.path.join(os.path.dirname(__file__), "seed_table.py")]).decode()
notes = open(os.path.join(D, "design_seed_notes.md")).read() if os.path.exists(os.path.join(D, "design_seed_notes.md")) else ""
quiet = open(os.path.join(D, "design_quiet.md")).read().strip()
text = "\n".join(parts).replace("@@SEED_TABLE@@", table).replace("@@SEED_NOTES@@", notes).replace("@@QUIET@@", quiet)
open(os.path.join(os.path.dirname(D), "DESIGN.md"), "w").write(text)
print(len(text.splitlines()), "lines")
