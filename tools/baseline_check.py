#!/usr/bin/env python3
"""Run the pinned baseline in a repo checkout and verify all stable_pass tests pass."""
import json, subprocess, sys, tempfile, os, xml.etree.ElementTree as ET
repo = sys.argv[1] if len(sys.argv) > 1 else "/repo"
base = json.load(open("/root/.vp/BASELINE.json"))
with tempfile.TemporaryDirectory() as d:
    x = os.path.join(d, "j.xml")
    subprocess.run(["/venv/bin/python", "-m", "pytest", "-q", "-p", "no:cacheprovider", "--timeout=900",
                    "--continue-on-collection-errors", "--junitxml=" + x], cwd=repo,
                   stdout=subprocess.DEVNULL, stderr=subprocess.DEVNULL)
    ok = set()
    for tc in ET.parse(x).getroot().iter("testcase"):
        if not any(c.tag in ("failure", "error", "skipped") for c in tc):
            ok.add("%s::%s" % (tc.get("classname"), tc.get("name")))
missing = [t for t in base["stable_pass"] if t not in ok]
print("passed %d; pinned %d; pinned missing %d" % (len(ok), len(base["stable_pass"]), len(missing)))
for m in missing:
    print("  MISSING", m)
sys.exit(1 if missing else 0)
