#!/usr/bin/env python3
"""Summarise /verif/seeded/*: writes meta.json per seed and prints a markdown table."""
import glob, json, os, re
rows = []
for d in sorted(glob.glob("/verif/seeded/*-m[0-9]")):
    name = os.path.basename(d)
    prop = name.split("-")[0]
    agent = {}
    if os.path.exists(d + "/meta.agent.json"):
        try:
            agent = json.load(open(d + "/meta.agent.json"))
        except Exception:
            agent = {}
    ver = open(d + "/verify.log").read() if os.path.exists(d + "/verify.log") else ""
    chk = open(d + "/check.log").read() if os.path.exists(d + "/check.log") else ""
    confirmed = ("demo clean exit=0" in ver and re.search(r"demo patched exit=[1-9]", ver) is not None
                 and "pinned missing 0" in ver)
    m = re.search(r"exit=(\d+) wall=(\d+)s", chk)
    caught = None
    buckets = []
    if m:
        caught = m.group(1) == "1"
        buckets = re.findall(r"bucket=(\S+)", chk)
    extra = {}
    if os.path.exists(d + "/extra.json"):
        extra = json.load(open(d + "/extra.json"))
    meta = {
        "property": prop,
        "summary": agent.get("summary", ""),
        "needs": agent.get("needs", ""),
        "confirmed_in_scratch_worktree": confirmed,
        "what_i_ran": [l for l in ver.splitlines() if l] + [l for l in chk.splitlines()[:3] if l],
        "caught_by_quick_check": caught,
        "buckets": buckets[:4],
    }
    meta.update(extra)
    json.dump(meta, open(d + "/meta.json", "w"), indent=1)
    rows.append((name, confirmed, caught, m.group(2) if m else "", ", ".join(sorted(set(b.split("/")[0] for b in buckets)))[:60],
                 (agent.get("summary", "") or "")[:110].replace("|", "/").replace("\n", " "), extra.get("note", "")))
print("| seed | confirmed | quick check | wall s | failing clauses | change | note |")
print("|---|---|---|---|---|---|---|")
for r in rows:
    print("| %s | %s | %s | %s | %s | %s | %s |" % (r[0], "yes" if r[1] else "NO", {True: "caught", False: "MISSED", None: "-"}[r[2]], r[3], r[4], r[5], r[6]))
