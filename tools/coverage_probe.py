#!/venv/bin/python
"""Line coverage of /repo/distance3d reached by the generated cases of a property.

usage: NUMBA_DISABLE_JIT=1 /venv/bin/python tools/coverage_probe.py C10 [cases-per-cell] [file-substring ...]

Development aid ("measure what the generator produces"): runs the cells of the
quick tier in-process with the library interpreted, records executed lines of
distance3d with sys.monitoring (each line is switched off after its first hit,
so the overhead is small) and prints, per source file, the executable lines of
function bodies that were never reached. Not part of any registered check.
"""
import importlib
import os
import sys
import types

os.environ.setdefault("NUMBA_DISABLE_JIT", "1")
sys.path.insert(0, os.path.dirname(os.path.dirname(os.path.abspath(__file__))))
from vp import env  # noqa: E402,F401
from vp.common import cell_seed  # noqa: E402
from vp import worker  # noqa: E402

REPO = os.path.realpath(env.REPO)
hit = {}


def on_line(code, line):
    hit.setdefault(code.co_filename, set()).add(line)
    return sys.monitoring.DISABLE


def code_lines(code, out):
    for _s, _e, ln in code.co_lines():
        if ln is not None:
            out.add(ln)
    for c in code.co_consts:
        if isinstance(c, types.CodeType):
            code_lines(c, out)


def function_lines(path):
    """Executable lines inside function bodies of a source file."""
    src = open(path).read()
    top = compile(src, path, "exec")
    out = set()
    for c in top.co_consts:
        if isinstance(c, types.CodeType):
            sub = set()
            code_lines(c, sub)
            sub.discard(c.co_firstlineno)
            out |= sub
    return out


def main():
    prop = sys.argv[1].upper()
    n = int(sys.argv[2]) if len(sys.argv) > 2 else 30
    filt = sys.argv[3:]
    mod = importlib.import_module("vp.props.%s" % prop.lower())
    worker.preimport()
    from hypothesis import given, settings, seed, HealthCheck, Phase
    mon = sys.monitoring
    mon.use_tool_id(mon.COVERAGE_ID, "vp-probe")
    mon.register_callback(mon.COVERAGE_ID, mon.events.LINE, on_line)
    mon.set_events(mon.COVERAGE_ID, mon.events.LINE)
    cells = [c for c in mod.cells("quick") if not c.get("fuzz") and not c.get("direct") and c.get("mode", "jit") == "jit"]
    total = 0
    for cell in cells:
        try:
            strat = mod.strategy(cell)
        except Exception:
            continue

        @seed(cell_seed(1, prop, cell["name"], 1))
        @settings(max_examples=n, database=None, deadline=None, phases=[Phase.generate],
                  suppress_health_check=list(HealthCheck))
        @given(strat)
        def t(case):
            nonlocal total
            total += 1
            mod.check_case(case, cell)
        t()
    mon.set_events(mon.COVERAGE_ID, 0)
    print("%s: %d cases over %d cells" % (prop, total, len(cells)))
    for path in sorted(hit):
        rp = os.path.realpath(path)
        if not rp.startswith(REPO) or "/test/" in rp:
            continue
        if filt and not any(f in rp for f in filt):
            continue
        want = function_lines(rp)
        missed = sorted(want - hit[path])
        if not want:
            continue
        print("%-60s %4d/%4d lines, missed: %s" % (os.path.relpath(rp, REPO), len(want) - len(missed), len(want),
                                                    _ranges(missed)))


def _ranges(xs):
    out, i = [], 0
    while i < len(xs):
        j = i
        while j + 1 < len(xs) and xs[j + 1] - xs[j] <= 1:
            j += 1
        out.append("%d" % xs[i] if i == j else "%d-%d" % (xs[i], xs[j]))
        i = j + 1
    return " ".join(out)


if __name__ == "__main__":
    main()
